"""C19 — permission-gated code execution never runs a forbidden construct."""
import ast
import collections
import contextlib
import io
import pickle
import random
import sys
import traceback
import types
import warnings

import pyglove as pg
from pgverif.gen import excprograms as XP
from pgverif.gen import programs as PG
from pgverif.monitors import audit

TIERS = {
    'quick': dict(shards=8, cases=190, sandbox_every=12, exception_value_share=0.08,
                  deep_nesting_share=0.03, no_new_variable_share=0.03),
    'thorough': dict(shards=16, cases=6000, sandbox_every=20, exception_value_share=0.06,
                     deep_nesting_share=0.02, no_new_variable_share=0.02, timeout_s=3000),
}
RULE = ('case = one generated program (recursive generator over all statement and '
        'expression kinds, depth 1-4, rendered as text; 4% are non-Python texts; 12% '
        'raise a run-time error 0-8+ calls below a top-level statement, through '
        'functions, lambdas, methods, comprehensions, recursion, builtin callbacks '
        'or standard-library code, the reported position being compared with the '
        'traceback of plain exec) '
        'evaluated under many permission configurations: the exact required set '
        'and ALL in the three output modes (differential against plain exec), '
        'all 256 subsets for small programs or the subsets around the required '
        'set otherwise (required minus each flag, none, random), as `permission=` '
        'argument, as enclosing scope, as scope plus argument, as nested scopes, as '
        'nested scopes plus argument, each crossed with the way of executing: '
        'evaluate, run / maybe_sandbox_call(evaluate) with sandbox=False with and '
        'without a (generous) timeout, and - for every sandbox_every-th program - '
        'run / maybe_sandbox_call / sandbox_call with sandbox=True / None, with and '
        'without timeout (forked; the outcome must equal plain exec wherever the '
        'values survive pickling). exception_value_share of the cases are programs '
        'whose values are exception objects or classes (builtin, user-defined '
        'picklable, program-defined; as last value, assigned variable, inside '
        'containers, printed, or really raised) compared in all output modes and '
        'all ways of executing. deep_nesting_share of the cases (and case 2 of every '
        'shard) are deeply nested programs: a nest of 20-900 levels (unary / binary '
        'operator chains, attribute / slice / method-call chains, nested lambdas, '
        'conditional-expression chains, nested displays and calls, elif chains, '
        'nested if / def / class / for / while / with / try blocks, a statement '
        'nest holding an expression nest) with a harmless atom or a gated construct '
        'at the bottom, as right-hand side, expression statement, argument, return '
        'value or condition, anywhere in the program; only programs that plain '
        'compile + exec under the default recursion limit handles (and whose syntax '
        'tree stays 100 levels below CPython\'s own limit) are in the class; they '
        'must be refused (required set minus one flag, empty set) resp. executed like '
        'plain exec (exact set, ALL; three output modes) with the permission given as '
        'argument, scope or both; a deviation is attributed to the depth when the '
        'same shape at depth 3 is handled correctly under the same configuration. '
        'no_new_variable_share of the cases (and case 3 of every shard) are programs '
        'whose last statement has no value (pass, del, loop, condition, try, with, '
        'global, assert, match) and that leave no new variable behind (they read, '
        'print, mutate given objects, re-bind given globals, delete what they '
        'define), in all output modes and ways of executing: for every program whose '
        'last statement has no value the result / __result__ must be None or the '
        'value of a variable that plain exec leaves behind. Non-trivial = the '
        'program has at least two different gated construct classes or nesting '
        'depth >= 2 and was both refused and executed at least once; distinct by '
        'program text.')
REQUIRED_COUNTERS = ['must_refuse_checks', 'must_accept_checks', 'differential_runs',
                     'error_reports_ok', 'error_position_checks_with_intermediate_lines',
                     'audit_exec_events', 'refused_without_exec', 'scope_checks',
                     'scope_with_timeout_checks', 'forked_refusal_checks',
                     'forked_differential_runs', 'exception_value_results_compared',
                     'deep_nesting_checks', 'deep_nesting_over_300_levels_checks',
                     'valueless_last_statement_results_checked',
                     'valueless_no_new_variable_results_checked']
ASSUMPTIONS = [
    'CPython exec() of the same text with the same globals is the reference',
    'sys.addaudithook sees every exec()/eval() of a code object; the probe object sees the first statement',
    'must-gate node classes: Assign AugAssign AnnAssign NamedExpr / If Match / For While AsyncFor / Call / Try TryStar Raise Assert / ClassDef / FunctionDef AsyncFunctionDef Lambda / Import ImportFrom',
    'don\'t-care (either outcome accepted, but never partial execution): IfExp, comprehensions, with, del, global/nonlocal, await, f-strings, decorators, return/yield',
    '__result__ is compared for equality only when the last statement is an expression or an assignment to plain names',
    'when the last statement has no value (anything but an expression or an assignment: pass, del, def, class, import, '
    'compound statements, ...) the result is not documented beyond "no code -> None" and the library\'s own tests '
    '(a trailing def / class gives that function / class): None or the value of any variable that plain exec leaves '
    'behind is accepted, any other object (one that plain execution never exposes) is a violation; '
    'a trailing augmented assignment is left open',
    'deeply nested programs: the reference is ast.parse + compile + exec under the default recursion limit '
    '(sys.getrecursionlimit() == 1000, checked at every library call); a text CPython itself rejects (SyntaxError, '
    'RecursionError, MemoryError) or whose syntax tree is deeper than 1400 levels (CPython gives up near 1497) is '
    'outside the class; harness code that walks syntax trees is iterative',
    'an inner permission scope is not required to narrow (documented: outermost scope wins); an argument or scope may never widen the enclosing scope',
    'permission=None without a scope is not a permission set and is not exercised',
    'run / maybe_sandbox_call(evaluate) / sandbox_call(evaluate) are ways of executing the same evaluation: '
    'the permission in force and the outcome do not depend on sandbox= / timeout= (timeouts used are far above the run time)',
    'sandbox=True may raise SerializationError instead of returning when a transported value does not survive '
    'pickle.loads(pickle.dumps(v)) in the harness (documented); sandbox=None then falls back and must return it',
    'pg.coding.make_function takes no permission and is not a gated entry point (not exercised)',
]

P = pg.coding.CodePermission
FLAGS = [P.ASSIGN, P.CONDITION, P.LOOP, P.CALL, P.EXCEPTION, P.CLASS_DEFINITION,
         P.FUNCTION_DEFINITION, P.IMPORT]
ALL = 0
for _f in FLAGS:
  ALL |= _f.value
REF = '<c19-reference>'
DEFAULT_RECURSION_LIMIT = 1000
# CPython (3.12) gives up on syntax trees of about 1497 levels whatever the
# Python stack depth; deeper than this margin is "outside the class".
AST_DEPTH_MARGIN = 1400

A, C, L, K, X, CD, FD, IM = (f.value for f in FLAGS)
MUST = {
    'Assign': A, 'AugAssign': A, 'AnnAssign': A, 'NamedExpr': A,
    'If': C, 'Match': C,
    'For': L, 'While': L, 'AsyncFor': L,
    'Call': K,
    'Try': X, 'TryStar': X, 'Raise': X, 'Assert': X,
    'ClassDef': CD,
    'FunctionDef': FD, 'AsyncFunctionDef': FD, 'Lambda': FD,
    'Import': IM, 'ImportFrom': IM,
}
MAYBE = {
    'IfExp': C, 'ListComp': L, 'SetComp': L, 'DictComp': L, 'GeneratorExp': L,
    'With': K, 'AsyncWith': K | L, 'Delete': A, 'Global': A, 'Nonlocal': A,
    'Return': FD, 'Yield': FD, 'YieldFrom': FD, 'Await': K,
    'JoinedStr': K, 'FormattedValue': K,
}


class Info:
  """Reference classification of one program."""

  def __init__(self, code):
    self.code = code
    self.tree = ast.parse(code)
    self.must = 0
    self.maybe = 0
    self.classes = {}          # must-gate class name -> flag
    self.depth = 0
    self.pairs = set()
    self.nodes = 0
    self.ast_depth = 0         # levels of the syntax tree (all node classes)
    # iterative pre-order walk (a deep tree must not exhaust the stack here)
    stack = [(self.tree, 0, 'Module', 1)]
    while stack:
      node, depth, parent, level = stack.pop()
      if level > self.ast_depth:
        self.ast_depth = level
      depth, parent = self._visit(node, depth, parent)
      children = list(ast.iter_child_nodes(node))
      for ch in reversed(children):
        stack.append((ch, depth, parent, level + 1))
    self.last = self.tree.body[-1] if self.tree.body else None

  def _visit(self, node, depth, parent):
    name = type(node).__name__
    self.nodes += 1
    if name in MUST:
      self.must |= MUST[name]
      self.classes[name] = MUST[name]
    if name in MAYBE:
      self.maybe |= MAYBE[name]
    if name == 'comprehension' and node.ifs:
      self.maybe |= C
    if isinstance(node, (ast.FunctionDef, ast.AsyncFunctionDef, ast.ClassDef)):
      if node.decorator_list:
        self.maybe |= K
    gated = name in MUST or name in MAYBE
    if gated:
      self.pairs.add((parent, name))
      depth += 1
      self.depth = max(self.depth, depth)
      parent = name
    return depth, parent

  def last_kind(self):
    """(class of the last statement, is `__result__` defined by the documentation)."""
    last = self.last
    if isinstance(last, ast.Expr):
      return 'Expr', True
    if isinstance(last, ast.Assign):
      if all(isinstance(t, ast.Name) for t in last.targets):
        return 'Assign', True
      return 'Assign-non-name-target', False
    return type(last).__name__, False


def norm(v, depth=0):
  """Comparable, address-free description of a value produced by a program."""
  if depth > 6:
    return '...'
  if v is None or isinstance(v, (bool, int, float, complex, str, bytes)):
    return (type(v).__name__, repr(v))
  if isinstance(v, (list, tuple)):
    return (type(v).__name__, [norm(x, depth + 1) for x in v])
  if isinstance(v, (set, frozenset)):
    return (type(v).__name__, sorted(repr(norm(x, depth + 1)) for x in v))
  if isinstance(v, dict):
    return ('dict', [(norm(k, depth + 1), norm(x, depth + 1)) for k, x in v.items()])
  if isinstance(v, types.FunctionType):
    return ('function', v.__name__)
  if isinstance(v, type):
    return ('class', v.__name__)
  if isinstance(v, types.ModuleType):
    return ('module', v.__name__)
  if isinstance(v, BaseException):
    return ('exception', type(v).__name__, [norm(a, depth + 1) for a in v.args])
  if isinstance(v, range):
    return ('range', repr(v))
  return ('object', type(v).__name__)


def shared_state(g):
  return norm([g['gl'], g['gd'], sorted(vars(g['gobj']).items())])


def _round_trips(v):
  """Does the value survive pickling (what a sandboxed run has to do with it)?"""
  try:
    return norm(pickle.loads(pickle.dumps(v))) == norm(v)
  except Exception:  # pylint: disable=broad-except
    return False


def fresh_globals(probe):
  g = PG.initial_globals(probe)
  g.update(XP.extra_globals())
  return g


class Ref:
  """Plain execution of the program text."""

  def __init__(self, info):
    tree = ast.parse(info.code)
    kind, defined = info.last_kind()
    self.result_defined = defined
    if kind == 'Expr':
      last = tree.body[-1]
      # (locations are copied node by node: ast.fix_missing_locations recurses
      # over the whole tree, which may be very deep)
      target = ast.copy_location(ast.Name('__ref_result__', ast.Store()), last)
      new = ast.Assign(targets=[target], value=last.value)
      tree.body[-1] = ast.copy_location(new, last)
    self.codeobj = compile(tree, REF, 'exec')      # SyntaxError -> not a valid program
    probe = PG.Probe()
    g = fresh_globals(probe)
    init = dict(g)
    out = io.StringIO()
    self.error = None
    self.error_norm = None
    self.error_picklable = True
    try:
      with contextlib.redirect_stdout(out):
        exec(self.codeobj, g)  # pylint: disable=exec-used
    except Exception as e:  # pylint: disable=broad-except
      frames = traceback.extract_tb(e.__traceback__)
      lines = [f.lineno for f in frames if f.filename == REF]
      self.error = (type(e).__name__, lines)
      self.error_norm = norm(e)
      self.error_picklable = _round_trips(e)
      # number of calls (program or library code) between the top-level
      # statement that was executing and the raise
      first = [k for k, f in enumerate(frames) if f.filename == REF][0]
      self.error_depth = len(frames) - 1 - first
    self.stdout = out.getvalue()
    self.result = None
    self.raw_result = None
    if self.error is None and defined:
      self.raw_result = (g['__ref_result__'] if kind == 'Expr'
                         else g[info.last.targets[0].id])
      self.result = norm(self.raw_result)
    self.raw_outputs = {k: v for k, v in g.items()
                        if k not in ('__builtins__', '__ref_result__')
                        and (k not in init or v is not init[k])}
    self.outputs = {k: norm(v) for k, v in self.raw_outputs.items()}
    self.shared = shared_state(g)
    self.hits = probe.hits()
    self._transportable = {}

  def transportable(self, mode):
    """Do the values a forked run of this mode has to send back survive pickling?"""
    if mode == 'stdout':
      return True
    if mode not in self._transportable:
      outputs_ok = all(_round_trips(v) for v in self.raw_outputs.values())
      result_ok = _round_trips(self.raw_result) if self.result_defined else outputs_ok
      self._transportable[mode] = result_ok if mode == 'result' else (result_ok and outputs_ok)
    return self._transportable[mode]


class Outcome:
  pass


# A way of executing: (entry point, sandbox, timeout).
T_GENEROUS = 60
E_EVAL = ('evaluate', False, None)
# ... in this process:
INPROC_ALT = [('run', False, None), ('run', False, T_GENEROUS),
              ('maybe_sandbox_call', False, None), ('maybe_sandbox_call', False, T_GENEROUS)]
# ... in a forked child (by entry point and sandbox value; timeout None or generous):
FORKED_KINDS = [('run', True), ('run', None), ('sandbox_call', True),
                ('maybe_sandbox_call', True), ('maybe_sandbox_call', None)]


def forked_entry(rng, k=None, timeout='random'):
  name, sb = FORKED_KINDS[k] if k is not None else rng.choice(FORKED_KINDS)
  if timeout == 'random':
    timeout = rng.choice([None, T_GENEROUS])
  return (name, sb, timeout)


def inproc_entry(rng, p_eval=0.4):
  return E_EVAL if rng.random() < p_eval else rng.choice(INPROC_ALT)


def is_forked(entry):
  return entry[1] is not False


def entry_desc(entry):
  """Mechanism text of a way of executing (harness facts only).  The timeout
  is named only where it selects something (in-process execution)."""
  name, sb, timeout = entry
  if name == 'evaluate':
    return 'evaluate'
  if name == 'sandbox_call':
    return 'sandbox_call'
  return f'{name}:sandbox={sb}' + (':timeout' if timeout is not None and sb is False else '')


def call_lib(code, kind, arg=None, outer=None, inner=None, mode='result',
             entry=E_EVAL, scope_problems=None):
  """One evaluation by the library. Returns an Outcome."""
  o = Outcome()
  name, sandbox, timeout = entry
  forked = is_forked(entry)
  if sys.getrecursionlimit() != DEFAULT_RECURSION_LIMIT:
    raise RuntimeError('the library must be called under the default recursion limit')
  probe = audit.FdProbe() if forked else PG.Probe()
  g = fresh_globals(probe)
  kwargs = dict(global_vars=g)
  if mode == 'stdout':
    kwargs['returns_stdout'] = True
  elif mode == 'inter':
    kwargs['outputs_intermediate'] = True
  if arg is not None:
    kwargs['permission'] = P(arg)
  if name == 'run':
    fn = lambda: pg.coding.run(code, sandbox=sandbox, timeout=timeout, **kwargs)
  elif name == 'maybe_sandbox_call':
    fn = lambda: pg.coding.maybe_sandbox_call(pg.coding.evaluate, code, sandbox=sandbox,
                                              timeout=timeout, **kwargs)
  elif name == 'sandbox_call':
    fn = lambda: pg.coding.sandbox_call(pg.coding.evaluate, code, timeout=timeout, **kwargs)
  else:
    fn = lambda: pg.coding.evaluate(code, **kwargs)
  o.status, o.value, o.error = 'ok', None, None
  sp = scope_problems if scope_problems is not None else []
  with audit.watch(own=(REF,)) as w:
    try:
      with contextlib.ExitStack() as st:
        if outer is not None:
          y = st.enter_context(pg.coding.permission(P(outer)))
          got = pg.coding.get_permission()
          if got is None or got.value != outer or y is None or y.value != outer:
            sp.append(('scope-not-applied', 'permission', f'outer {P(outer)!r}: yielded {y!r}, get_permission() {got!r}'))
        if inner is not None:
          y = st.enter_context(pg.coding.permission(P(inner)))
          got = pg.coding.get_permission()
          for nm, val in (('yielded', y), ('get_permission', got)):
            if val is None or (val.value & ~outer):
              sp.append(('scope-widened', 'nested-permission-' + nm,
                         f'outer {P(outer)!r} inner {P(inner)!r}: {nm} = {val!r}'))
        o.value = fn()
    except pg.coding.CodeError as e:
      o.status, o.error = 'code-error', e
    except Exception as e:  # pylint: disable=broad-except
      o.status, o.error = 'other-error', e
  if outer is not None and pg.coding.get_permission() is not None:
    sp.append(('scope-leak', 'permission', f'get_permission() after the scope: {pg.coding.get_permission()!r}'))
  o.audit_execs = w.dynamic_execs
  o.filenames = w.filenames
  o.hits = probe.hits()
  probe.close()
  o.executed = w.executed or o.hits > 0
  o.globals = g
  return o


def effective(kind, arg, outer, inner):
  """(set whose lack obliges refusal, set that obliges acceptance)."""
  if kind == 'arg':
    return arg, arg
  if kind == 'scope':
    return outer, outer
  if kind == 'scope+arg':
    return arg & outer, arg & outer
  if kind == 'nested':
    return outer, outer & inner
  if kind == 'nested+arg':
    return outer & arg, outer & inner & arg
  raise AssertionError(kind)


def refusal_mechanisms(info, kind, arg, outer, inner, refuse_set):
  """Mechanism keys for "should have been refused" (harness facts only).

  When the configuration has more than one source of permissions, a control
  run with the same effective set given by one enclosing scope decides whether
  the combination (and not a construct that is never gated) is the cause."""
  config = None
  if arg is not None and arg == 0:
    config = 'empty-permission-argument'
  elif kind in ('scope+arg', 'nested+arg'):
    config = 'argument-wider-than-scope'
  elif kind == 'nested':
    config = 'inner-scope-wider-than-outer'
  if config is not None:
    control = call_lib(info.code, 'scope', outer=refuse_set)
    if control.status == 'code-error' and not control.executed:
      return [config]
  return sorted(c for c, f in info.classes.items() if f & ~refuse_set)


def cases(ctx):
  return ctx.params['cases']


def setup(ctx):
  warnings.simplefilter('ignore')
  if not audit.self_test():
    raise RuntimeError('audit hook self-test failed: exec/compile events are not observed')
  if pg.coding.get_permission() is not None:
    raise RuntimeError('a permission scope is active at start-up')
  for src in XP.INSTANCES + XP.BASE_INSTANCES + XP.CLASSES:
    v = eval(src, fresh_globals(PG.Probe()))  # pylint: disable=eval-used
    if not _round_trips(v):
      raise RuntimeError(f'{src} is meant to be picklable')


def fmt_cfg(kind, arg, outer, inner, mode, entry=E_EVAL):
  s = lambda v: None if v is None else (repr(P(v)) if v else 'CodePermission(0)')
  return {'permission_by': kind, 'permission_arg': s(arg), 'outer_scope': s(outer),
          'inner_scope': s(inner), 'mode': mode, 'entry': entry[0],
          'sandbox': entry[1], 'timeout': entry[2]}


def observe(c, info, ref, kind, arg, outer, inner, mode, entry, differential, stats=None,
            sp=None):
  """Runs one configuration and judges it.

  Returns (outcome, problems); a problem is (clause, mechanism, detail,
  suffix): the suffix qualifies the way of executing when the problem turns
  out to depend on it (see check_one)."""
  o = call_lib(info.code, kind, arg, outer, inner, mode, entry, sp)
  forked = is_forked(entry)
  tag = getattr(info, 'tag', None)
  c['evaluations_by_library'] += 1
  c['cfg:' + kind] += 1
  c['exec:' + entry_desc(entry) + (':timeout' if entry[2] is not None and forked else '')] += 1
  c['audit_exec_events'] += o.audit_execs
  if outer is not None and entry[2] is not None:
    c['scope_with_timeout_checks'] += 1
  problems = []
  by = 'permission-from-scope' if outer is not None else 'permission-from-argument'
  refuse_set, accept_set = effective(kind, arg, outer, inner)
  refused = o.status == 'code-error' and not o.executed
  if refused:
    c['refused_without_exec'] += 1
    if stats is not None:
      stats['refused'] += 1
  if o.executed and stats is not None:
    stats['executed'] += 1
  if info.must & ~refuse_set:
    c['must_refuse_checks'] += 1
    if forked:
      c['forked_refusal_checks'] += 1
    if not refused:
      clause = 'ran-forbidden' if o.executed else 'not-refused'
      for mech in refusal_mechanisms(info, kind, arg, outer, inner, refuse_set):
        problems.append((clause, mech,
                         f'needs {P(info.must)!r}; outcome {o.status} '
                         f'(exec audit events {o.audit_execs}, probe hits {o.hits}): {o.error!r:.300}',
                         by))
    return o, problems
  if (info.must | info.maybe) & ~accept_set:
    # Refusing is fine, accepting is fine (then it must behave like plain
    # exec); refusing after a part has run is not.
    c['dont_care_configs'] += 1
    if not o.executed:
      return o, problems
    if (o.status == 'code-error' and ref.error is None
        and isinstance(getattr(o.error, 'cause', None), SyntaxError)):
      problems.append(('ran-before-refusal', 'dont-care-construct', f'{o.error!r:.300}', by))
      return o, problems
  else:
    c['must_accept_checks'] += 1
    if refused or (o.status != 'ok' and not o.executed):
      problems.append(('refused-permitted', kind,
                       f'needs at most {P(info.must | info.maybe)!r}; outcome {o.status}: {o.error!r:.400}',
                       by))
      return o, problems
  if not differential:
    return o, problems
  c['differential_runs'] += 1
  if forked:
    c['forked_differential_runs'] += 1
  sfx = tag or ''
  last_kind, defined = info.last_kind()
  last_mech = 'last-statement:' + last_kind
  if ref.error is not None:
    c['differential_error_runs'] += 1
    if o.status == 'ok':
      problems.append(('outcome-differs', 'missing-error',
                       f'plain exec raises {ref.error[0]}, library returned {o.value!r:.200}', sfx))
    elif (entry[1] is True and not ref.error_picklable
          and isinstance(o.error, pg.coding.SerializationError)):
      # documented: sandbox=True cannot hand over what cannot be serialized
      c['dont_care_unserializable_results'] += 1
    elif o.status != 'code-error':
      problems.append(('error-report', 'not-a-code-error',
                       f'plain exec raises {ref.error[0]}, library raised {o.error!r:.300}', sfx))
    else:
      e = o.error
      cause = getattr(e, 'cause', None)
      if (type(cause).__name__ != ref.error[0] or (not forked and e.__cause__ is not cause)
          or (isinstance(cause, BaseException) and norm(cause) != ref.error_norm)):
        problems.append(('error-report', 'cause',
                         f'plain exec raises {ref.error_norm!r:.200}, CodeError.cause is {cause!r:.200}, '
                         f'__cause__ {e.__cause__!r:.200}', sfx))
      elif getattr(e, 'lineno', None) not in (ref.error[1][0], ref.error[1][-1]):
        # The position of an error in the program is the line of the top-level
        # statement that was executing (what the library documents) or the
        # innermost program line of the traceback (the other reading of
        # "position"); a line of an intermediate call or no line is neither.
        problems.append(('error-report',
                         'position' if ref.error_depth == 0 else 'position-of-error-in-called-code',
                         f'{ref.error[0]} raised {ref.error_depth} calls below the top-level statement; '
                         f'program lines of the traceback (outermost first) {ref.error[1]}, '
                         f'CodeError.lineno = {getattr(e, "lineno", None)!r}', sfx))
      else:
        c['error_reports_ok'] += 1
        c['error_position_checks:depth-%s' % (ref.error_depth if ref.error_depth < 9 else '9+')] += 1
        if len(set(ref.error[1])) >= 3:
          c['error_position_checks_with_intermediate_lines'] += 1
        if tag:
          c['exception_value_errors_compared'] += 1
    return o, problems
  if o.status != 'ok':
    if (entry[1] is True and isinstance(o.error, pg.coding.SerializationError)
        and not ref.transportable(mode)):
      # documented: sandbox=True cannot return what cannot be serialized
      c['dont_care_unserializable_results'] += 1
      return o, problems
    special = last_kind in ('AugAssign', 'AnnAssign', 'Assign-non-name-target')
    problems.append(('outcome-differs', last_mech if special else 'unexpected-error',
                     f'plain exec succeeds, library raised {o.error!r:.400}', sfx))
    return o, problems
  c['differential_ok_runs'] += 1
  special = last_kind in ('AugAssign', 'AnnAssign', 'Assign-non-name-target')
  state_mech = last_mech if special else 'globals'
  # the last statement has no value: see valueless_problem
  valueless = not defined and not special and info.last is not None
  # values that went through a pickle are compared when the reference values
  # survive one (in-process runs: always)
  comparable = (not forked) or ref.transportable(mode)
  if forked and not comparable:
    c['forked_values_not_compared'] += 1
  if mode == 'result':
    if defined and comparable:
      c['result_compared'] += 1
      if tag:
        c['exception_value_results_compared'] += 1
      if norm(o.value) != ref.result:
        problems.append(('result-differs', last_mech,
                         f'plain exec: {ref.result!r:.200}; library: {norm(o.value)!r:.200}', sfx))
    elif valueless and comparable:
      problems.extend(valueless_problem(c, o.value, None, ref, last_kind, 'result', sfx))
  elif mode == 'stdout':
    c['stdout_compared'] += 1
    if o.value != ref.stdout:
      problems.append(('stdout-differs', 'returns_stdout',
                       f'plain exec: {ref.stdout!r:.200}; library: {o.value!r:.200}', sfx))
  else:
    c['intermediates_compared'] += 1
    out = dict(o.value) if isinstance(o.value, dict) else None
    if out is None:
      problems.append(('intermediates-differ', 'not-a-dict', f'{o.value!r:.200}', sfx))
      return o, problems
    so = out.pop('__stdout__', None)
    if so != ref.stdout:
      problems.append(('stdout-differs', 'outputs_intermediate',
                       f'plain exec: {ref.stdout!r:.200}; library: {so!r:.200}', sfx))
    res = out.pop('__result__', None)
    if comparable:
      if tag:
        c['exception_value_results_compared'] += 1
      if defined and norm(res) != ref.result:
        problems.append(('result-differs', last_mech,
                         f'plain exec: {ref.result!r:.200}; library __result__: {norm(res)!r:.200}', sfx))
      if valueless:
        problems.extend(valueless_problem(c, res, None if forked else out, ref, last_kind,
                                          '__result__', sfx))
      got = {k: norm(v) for k, v in out.items()}
      if got != ref.outputs:
        diff = sorted(k for k in set(got) | set(ref.outputs) if got.get(k) != ref.outputs.get(k))
        problems.append(('intermediates-differ', state_mech,
                         f'variables that differ: {diff[:8]}; plain exec: '
                         f'{ {k: ref.outputs.get(k) for k in diff[:4]}!r:.300}; library: '
                         f'{ {k: got.get(k) for k in diff[:4]}!r:.300}', sfx))
    elif set(out) != set(ref.outputs):
      problems.append(('intermediates-differ', state_mech,
                       f'names: plain exec {sorted(ref.outputs)!r:.300}; library {sorted(out)!r:.300}', sfx))
  if not forked:
    if shared_state(o.globals) != ref.shared:
      problems.append(('intermediates-differ', state_mech,
                       f'objects reachable from global_vars after the run: plain exec {ref.shared!r:.300}; '
                       f'library {shared_state(o.globals)!r:.300}', sfx))
    if o.hits != ref.hits:
      problems.append(('intermediates-differ', 'execution-count',
                       f'the probe was read {o.hits} times, by plain exec {ref.hits} times', sfx))
  return o, problems


def valueless_problem(c, value, own_outputs, ref, last_kind, what, sfx):
  """The result of a program whose last statement has no value.

  Documented: the result is "the value of the last line", "no code -> None";
  the library's tests add that a trailing `def f` / `class A` gives f / A (the
  last variable defined).  So None and the value of any variable that plain
  execution leaves behind are accepted; any other object - one that plain
  execution of the text never exposes, such as the namespace of builtins that
  exec() adds to the globals - is not a result of the program.  own_outputs:
  the variables the same (in-process) run reports, among which a non-None
  `__result__` must be found by identity."""
  c['valueless_last_statement_results_checked'] += 1
  if not ref.outputs:
    c['valueless_no_new_variable_results_checked'] += 1
  if value is None:
    return []
  n = norm(value)
  if any(n == m for m in ref.outputs.values()):
    if own_outputs is None or any(value is v for v in own_outputs.values()):
      return []
    return [('result-differs', 'last-statement-has-no-value',
             f'last statement {last_kind}: library {what} {n!r:.200} equals a variable of the program '
             f'but is none of the objects reported as its variables', sfx)]
  return [('result-differs', 'last-statement-has-no-value',
           f'last statement {last_kind}: plain exec leaves the variables {ref.outputs!r:.200}; '
           f'library {what}: {n!r:.200} (neither None nor the value of one of them)', sfx)]


def check_one(ctx, info, ref, kind, arg=None, outer=None, inner=None,
              mode='result', entry=E_EVAL, differential=False, stats=None):
  """Runs one configuration, judges it and attributes what is wrong.

  A problem seen with run / maybe_sandbox_call / sandbox_call is re-judged with
  the same program, permissions and output mode given to plain `evaluate`:
  when that control is fine, the way of executing is the mechanism."""
  c = ctx.counters
  sp = []
  o, problems = observe(c, info, ref, kind, arg, outer, inner, mode, entry, differential,
                        stats, sp)
  for fn in o.filenames:
    ctx.seen('dynamic_code_filenames', fn)
  witness = {'program': info.code, 'config': fmt_cfg(kind, arg, outer, inner, mode, entry)}
  if getattr(info, 'tag', None):
    witness['values'] = info.tag
  if outer is not None:
    c['scope_checks'] += 1
    for clause, mech, detail in sp:
      ctx.violation(clause, mech, detail, witness)
  if problems and entry != E_EVAL:
    c['controls_by_evaluate'] += 1
    _, control = observe(collections.Counter(), info, ref, kind, arg, outer, inner, mode,
                         E_EVAL, differential)
    if not control:
      seen, attributed = set(), []
      for clause, _, detail, suffix in problems:
        # an error object that cannot be pickled: any forked way is the same fact
        how = 'sandboxed' if (is_forked(entry) and not ref.error_picklable) else entry_desc(entry)
        mech = how + (':' + suffix if suffix else '')
        if (clause, mech) not in seen:
          seen.add((clause, mech))
          attributed.append((clause, mech, detail + ' [plain evaluate of the same configuration is fine]', ''))
      problems = attributed
  for clause, mech, detail, _ in problems:
    ctx.violation(clause, mech, detail, witness)
  return o


def subsets_around(rng, info):
  need = info.must
  out = []
  for f in FLAGS:
    if need & f.value:
      out.append(need & ~f.value)
      out.append(ALL & ~f.value)
  out += [0, need, need | info.maybe, ALL]
  for _ in range(3):
    out.append(rng.randrange(256))
  seen, res = set(), []
  for s in out:
    if s not in seen:
      seen.add(s)
      res.append(s)
  return res


def run_invalid(ctx, i):
  rng, c = ctx.rng, ctx.counters
  code = PG.invalid_program(rng)
  try:
    ast.parse(code)
    return            # happens to be valid: not this case's subject
  except SyntaxError:
    pass
  for arg in (ALL, rng.randrange(256), 0):
    for mode in ('result', 'inter'):
      entry = inproc_entry(rng, 0.6)
      o = call_lib(code, 'arg', arg=arg, mode=mode, entry=entry)
      c['invalid_text_checks'] += 1
      w = {'program': code, 'config': fmt_cfg('arg', arg, None, None, mode, entry)}
      if o.executed:
        ctx.violation('invalid-text', 'executed', f'{o.status} {o.error!r:.200}', w)
      elif o.status != 'code-error' or not isinstance(o.error.cause, SyntaxError):
        ctx.violation('invalid-text', 'not-a-code-error', f'{o.status} {o.error!r:.200}', w)
  if i < 2:
    ctx.sample({'invalid_program': code})


def supply(rng, kind, need, lacking=0):
  """Permission sets for one way of supplying permissions.

  lacking == 0: the effective set is exactly `need` (or a random superset);
  otherwise the enclosing scope / the only source lacks the flag `lacking` and
  every other source grants everything."""
  if lacking:
    low = ALL & ~lacking
    return {'arg': dict(arg=low), 'scope': dict(outer=low),
            'scope+arg': dict(outer=low, arg=ALL),
            'nested': dict(outer=low, inner=ALL),
            'nested+arg': dict(outer=low, inner=ALL, arg=ALL)}[kind]
  wide = lambda: need | rng.randrange(256) if rng.random() < 0.5 else need
  return {'arg': dict(arg=need), 'scope': dict(outer=need),
          'scope+arg': rng.choice([dict(outer=need, arg=wide()), dict(outer=wide(), arg=need)]),
          'nested': dict(outer=need, inner=rng.choice([need, ALL])),
          'nested+arg': dict(outer=wide(), inner=ALL, arg=need)}[kind]


KINDS = ['arg', 'scope', 'scope+arg', 'nested', 'nested+arg']


def forked_batch(ctx, info, ref, stats, n_accept, n_refuse, modes=('result', 'result', 'inter', 'stdout')):
  """Forked ways of executing x ways of supplying the permission."""
  rng = ctx.rng
  exact = (info.must | info.maybe) or ALL
  order = list(range(len(FORKED_KINDS)))
  rng.shuffle(order)
  for k in order[:n_accept]:
    kind = rng.choice(KINDS)
    check_one(ctx, info, ref, kind, mode=rng.choice(modes), entry=forked_entry(rng, k),
              differential=True, stats=stats, **supply(rng, kind, exact))
  if info.must:
    rng.shuffle(order)
    for k in order[:n_refuse]:
      kind = rng.choice(KINDS)
      lacking = rng.choice([f.value for f in FLAGS if info.must & f.value])
      check_one(ctx, info, ref, kind, mode=rng.choice(modes), entry=forked_entry(rng, k),
                stats=stats, **supply(rng, kind, exact, lacking))


def run_exception_values(ctx, i, tag=None):
  """A program whose values are exception objects / classes, every way of executing."""
  rng, c = ctx.rng, ctx.counters
  code, tag = XP.exception_value_program(rng, tag)
  info = Info(code)
  info.tag = tag
  ref = Ref(info)
  c['programs'] += 1
  c['programs_exception_values'] += 1
  c['exception_values:' + tag] += 1
  c['programs_raising' if ref.error else 'programs_completing'] += 1
  stats = {'refused': 0, 'executed': 0}
  modes = ['result', 'stdout', 'inter']
  exact = (info.must | info.maybe) or ALL
  for mode in modes:
    check_one(ctx, info, ref, 'arg', arg=rng.choice([exact, ALL]), mode=mode,
              differential=True, stats=stats)
    kind = rng.choice(KINDS)
    check_one(ctx, info, ref, kind, mode=mode, entry=rng.choice(INPROC_ALT),
              differential=True, stats=stats, **supply(rng, kind, exact))
  if info.must:
    kind = rng.choice(KINDS)
    lacking = rng.choice([f.value for f in FLAGS if info.must & f.value])
    check_one(ctx, info, ref, kind, mode=rng.choice(modes), entry=inproc_entry(rng),
              stats=stats, **supply(rng, kind, exact, lacking))
  if not ref.error_picklable:
    # The error cannot be sent back by a forked child as it is; it still has
    # to be reported.  Short timeout (the program takes microseconds): a run
    # that never reports ends in TimeoutError.  Once per shard.
    if c['forked_unpicklable_error_checks'] < 1:
      c['forked_unpicklable_error_checks'] += 1
      name, sb = rng.choice(FORKED_KINDS)
      check_one(ctx, info, ref, 'arg', arg=exact, mode='result', entry=(name, sb, 3),
                differential=True, stats=stats)
  else:
    # every forked way of executing in result mode, two more in the other modes
    for k in range(len(FORKED_KINDS)):
      kind = rng.choice(KINDS)
      check_one(ctx, info, ref, kind, mode='result', entry=forked_entry(rng, k),
                differential=True, stats=stats, **supply(rng, kind, exact))
    for mode in ('inter', 'stdout'):
      kind = rng.choice(KINDS)
      check_one(ctx, info, ref, kind, mode=mode, entry=forked_entry(rng),
                differential=True, stats=stats, **supply(rng, kind, exact))
    if info.must:
      forked_batch(ctx, info, ref, stats, 0, 1)
  if (len(info.classes) >= 2 or info.depth >= 2) and stats['refused'] and stats['executed']:
    ctx.mark_nontrivial(code)
  if c['exception_value_samples'] < 2:
    c['exception_value_samples'] += 1
    ctx.sample({'program': code, 'values': tag,
                'reference': 'raises ' + ref.error[0] if ref.error else 'completes'})


def check_deep(ctx, info, ref, small, shape, kind, arg=None, outer=None, inner=None,
               mode='result', entry=E_EVAL, differential=False, stats=None):
  """check_one for a deeply nested program.

  What is wrong is attributed to the depth (mechanism `deep-nesting`, clause
  as judged) when the same shape at depth 3, under the same configuration and
  way of executing, does not show it; what the control shows as well is not
  due to the depth and is reported for the control program as for any
  ordinary program (ordinary keys)."""
  c = ctx.counters
  sp = []
  o, problems = observe(c, info, ref, kind, arg, outer, inner, mode, entry, differential,
                        stats, sp)
  c['deep_nesting_checks'] += 1
  if info.ast_depth > 300:
    c['deep_nesting_over_300_levels_checks'] += 1
  if problems:
    c['deep_nesting_controls_at_depth_3'] += 1
    s_info, s_ref = small
    same = (s_info.must, s_info.maybe) == (info.must, info.maybe)
    _, control = observe(collections.Counter(), s_info, s_ref, kind, arg, outer, inner, mode,
                         entry, differential)
    if not same:
      c['deep_nesting_problems_not_due_to_depth'] += 1
      return check_one(ctx, info, ref, kind, arg, outer, inner, mode, entry, differential)
    if control:
      c['deep_nesting_problems_not_due_to_depth'] += 1
      check_one(ctx, s_info, s_ref, kind, arg, outer, inner, mode, entry, differential)
      shown = {(p_[0], p_[1]) for p_ in control}
      problems = [p_ for p_ in problems if (p_[0], p_[1]) not in shown]
  witness = {'program': info.code, 'config': fmt_cfg(kind, arg, outer, inner, mode, entry),
             'nesting': {k: shape[k] for k in ('family', 'kind', 'depth', 'bottom') if k in shape},
             'syntax_tree_levels': info.ast_depth}
  if outer is not None:
    c['scope_checks'] += 1
    for clause, mech, detail in sp:
      ctx.violation(clause, mech, detail, witness)
  seen = set()
  for clause, _, detail, _ in problems:
    if clause not in seen:
      seen.add(clause)
      ctx.violation(clause, 'deep-nesting',
                    detail + f' [syntax tree of {info.ast_depth} levels; not so for the same shape '
                    'at depth 3 under the same configuration]', witness)
  return o


def run_deep_nesting(ctx, i, big=False):
  """A deeply nested program: refused / executed whatever the depth."""
  rng, c = ctx.rng, ctx.counters
  info = ref = None
  for _ in range(6 if big else 1):
    code, small_code, shape = XP.deep_nesting_program(rng, big)
    c['deep_nesting_generated'] += 1
    try:
      info = Info(code)
      if info.ast_depth > AST_DEPTH_MARGIN:
        raise RecursionError('too close to the limit of CPython itself')
      ref = Ref(info)
      break
    except (SyntaxError, RecursionError, MemoryError) as e:
      # CPython itself does not take this text: outside the class
      c['deep_nesting_skipped_reference_limit'] += 1
      c['deep_nesting_skipped:' + type(e).__name__] += 1
      info = ref = None
  if ref is None:
    return
  s_info = Info(small_code)
  small = (s_info, Ref(s_info))
  c['programs'] += 1
  c['programs_deep_nesting'] += 1
  c['programs_raising' if ref.error else 'programs_completing'] += 1
  c[f'deep_nesting:{shape["family"]}:{shape["kind"]}'] += 1
  c['deep_nesting_levels:' + ('20-100' if info.ast_depth <= 100 else '101-300' if info.ast_depth <= 300
                              else '301-600' if info.ast_depth <= 600 else '601-1400')] += 1
  c['deep_nesting_bottom:' + ('gated' if info.must else 'harmless')] += 1
  c['last:' + info.last_kind()[0]] += 1
  stats = {'refused': 0, 'executed': 0}
  modes = ['result', 'stdout', 'inter']
  exact = info.must | info.maybe
  args = (ctx, info, ref, small, shape)

  # must accept: the exact set and ALL, every output mode, differential
  for s_ in ([exact] if exact != ALL else []) + [ALL]:
    for mode in modes:
      check_deep(*args, 'arg', arg=s_, mode=mode, differential=True, stats=stats)
  check_deep(*args, 'scope', outer=exact, mode=rng.choice(modes), entry=inproc_entry(rng),
             differential=True, stats=stats)
  check_deep(*args, 'scope+arg', mode=rng.choice(modes), entry=rng.choice(INPROC_ALT),
             differential=True, stats=stats, **supply(rng, 'scope+arg', exact))
  # must refuse: the required set minus one flag, the empty set
  if info.must:
    flags = [f.value for f in FLAGS if info.must & f.value]
    rng.shuffle(flags)
    for k, f in enumerate(flags[:3]):
      check_deep(*args, 'arg', arg=exact & ~f, mode=modes[k % 3], stats=stats)
      check_deep(*args, 'arg', arg=ALL & ~f, mode=rng.choice(modes),
                 entry=rng.choice(INPROC_ALT), stats=stats)
    f = flags[0]
    check_deep(*args, 'scope', outer=exact & ~f, mode=rng.choice(modes), entry=inproc_entry(rng),
               stats=stats)
    check_deep(*args, 'scope+arg', mode=rng.choice(modes), entry=inproc_entry(rng), stats=stats,
               **supply(rng, 'scope+arg', exact, f))
    check_deep(*args, 'arg', arg=0, mode=rng.choice(modes), stats=stats)
    check_deep(*args, 'scope', outer=0, mode=rng.choice(modes), stats=stats)
  if (len(info.classes) >= 2 or info.depth >= 2) and stats['refused'] and stats['executed']:
    ctx.mark_nontrivial(code)
  if c['deep_nesting_samples'] < 1:
    c['deep_nesting_samples'] += 1
    ctx.sample({'program': code if len(code) < 600 else code[:300] + ' ... ' + code[-200:],
                'nesting': {k: v for k, v in shape.items() if k != 'sub'},
                'syntax_tree_levels': info.ast_depth,
                'required': repr(P(info.must)),
                'reference': 'raises ' + ref.error[0] if ref.error else 'completes'})


def run_no_new_variable(ctx, i):
  """A program that ends in a statement without value and leaves no new variable."""
  rng, c = ctx.rng, ctx.counters
  code, tail = XP.no_new_variable_program(rng)
  info = Info(code)
  try:
    ref = Ref(info)
  except SyntaxError:
    c['skipped_not_compilable'] += 1
    return
  c['programs'] += 1
  c['programs_no_new_variable'] += 1
  c['no_new_variable:' + tail] += 1
  c['programs_raising' if ref.error else 'programs_completing'] += 1
  c['last:' + info.last_kind()[0]] += 1
  stats = {'refused': 0, 'executed': 0}
  modes = ['result', 'stdout', 'inter']
  exact = info.must | info.maybe
  for s_ in ([exact] if exact != ALL else []) + [ALL]:
    for mode in modes:
      check_one(ctx, info, ref, 'arg', arg=s_, mode=mode, differential=True, stats=stats)
  for mode in ('result', 'inter', rng.choice(modes)):
    kind = rng.choice(KINDS)
    check_one(ctx, info, ref, kind, mode=mode, entry=rng.choice(INPROC_ALT),
              differential=True, stats=stats, **supply(rng, kind, exact))
  if c['programs_no_new_variable'] % 4 == 1:
    # forked ways of executing: the result has to be sent back
    for mode in ('result', 'inter'):
      kind = rng.choice(KINDS)
      check_one(ctx, info, ref, kind, mode=mode, entry=forked_entry(rng),
                differential=True, stats=stats, **supply(rng, kind, exact))
  if info.must:
    kind = rng.choice(KINDS)
    lacking = rng.choice([f.value for f in FLAGS if info.must & f.value])
    check_one(ctx, info, ref, kind, mode=rng.choice(modes), entry=inproc_entry(rng),
              stats=stats, **supply(rng, kind, exact, lacking))
  if (len(info.classes) >= 2 or info.depth >= 2) and stats['refused'] and stats['executed']:
    ctx.mark_nontrivial(code)
  if c['no_new_variable_samples'] < 1:
    c['no_new_variable_samples'] += 1
    ctx.sample({'program': code, 'leaves': tail, 'variables_after_plain_exec': sorted(ref.outputs),
                'reference': 'raises ' + ref.error[0] if ref.error else 'completes'})


def run_case(ctx, i):
  rng, c = ctx.rng, ctx.counters
  # The two classes below are chosen by a stream of their own, so that the
  # programs of all other cases do not depend on their shares.  In every run,
  # whatever the seed: one (large) deeply nested program and one program that
  # leaves no new variable per shard.
  r2 = random.Random(f'C19-classes/{ctx.seed}/{ctx.shard}/{i}/').random()
  deep_share = ctx.params.get('deep_nesting_share', 0.03)
  if i == 2 or r2 < deep_share:
    try:
      return run_deep_nesting(ctx, i, big=(i == 2))
    except RecursionError:
      # harness code ran out of stack on a deep program: the case decides nothing
      c['deep_nesting_harness_recursion_errors'] += 1
      ctx.notes['deep_nesting_harness_recursion_error'] = traceback.format_exc()[-1500:]
      return None
  if i == 3 or r2 < deep_share + ctx.params.get('no_new_variable_share', 0.03):
    return run_no_new_variable(ctx, i)
  if rng.random() < 0.04:
    return run_invalid(ctx, i)
  if i == 1 and ctx.shard % 3 == 0:
    # in every run, whatever the seed: an error that cannot be pickled
    return run_exception_values(ctx, i, 'raises-program-defined-exception')
  if rng.random() < ctx.params.get('exception_value_share', 0.08):
    return run_exception_values(ctx, i)
  small = rng.random() < 0.3
  if rng.random() < ctx.params.get('deep_error_share', 0.12):
    # run-time error raised 0..8+ calls below a top-level statement
    code = PG.deep_error_program(rng)
    c['programs_deep_error'] += 1
    small = False
  else:
    gen = PG.ProgramGen(rng, depth=rng.choice([1, 2]) if small else rng.choice([2, 3, 3, 4]),
                        top=(0, 1) if small else (1, 4))
    code = gen.program()
  info = Info(code)
  try:
    ref = Ref(info)
  except SyntaxError:
    c['skipped_not_compilable'] += 1
    return
  c['programs'] += 1
  c['programs_raising' if ref.error else 'programs_completing'] += 1
  for cls in info.classes:
    c['has:' + cls] += 1
  for pr in info.pairs:
    ctx.seen('nesting_pairs', pr)
  ctx.seen('required_sets', info.must)
  c['last:' + info.last_kind()[0]] += 1
  stats = {'refused': 0, 'executed': 0}
  modes = ['result', 'stdout', 'inter']

  # 1. exact sets, all output modes, differential against plain exec.
  exact = info.must | info.maybe
  for s in ([exact] if exact else []) + [ALL]:
    for mode in modes:
      check_one(ctx, info, ref, 'arg', arg=s, mode=mode, differential=True, stats=stats)
    check_one(ctx, info, ref, 'arg', arg=s, mode=rng.choice(modes), entry=rng.choice(INPROC_ALT),
              differential=True, stats=stats)
    check_one(ctx, info, ref, 'scope', outer=s, mode=rng.choice(modes), entry=inproc_entry(rng),
              differential=True, stats=stats)

  # 2. subsets as argument.
  if small and info.nodes <= 40 and rng.random() < 0.5:
    sweep = list(range(256))
    c['programs_all_256_subsets'] += 1
  else:
    sweep = subsets_around(rng, info)
  for k, s in enumerate(sweep):
    check_one(ctx, info, ref, 'arg', arg=s, mode=modes[k % 3],
              entry=E_EVAL if k % 5 else rng.choice(INPROC_ALT), stats=stats)

  # 3. scopes: alone, with an argument, nested, nested with an argument; each
  #    with some in-process way of executing (with and without timeout).
  pool = subsets_around(rng, info)
  for k in range(4):
    o_, a_ = rng.choice(pool), rng.choice(pool)
    check_one(ctx, info, ref, 'scope', outer=o_, mode=rng.choice(modes), entry=inproc_entry(rng), stats=stats)
    check_one(ctx, info, ref, 'scope+arg', outer=o_, arg=a_, mode=rng.choice(modes),
              entry=inproc_entry(rng), stats=stats)
    check_one(ctx, info, ref, 'nested', outer=o_, inner=a_, mode=rng.choice(modes),
              entry=inproc_entry(rng), stats=stats)
    if k < 2:
      check_one(ctx, info, ref, 'nested+arg', outer=o_, inner=a_, arg=rng.choice(pool),
                mode=rng.choice(modes), entry=inproc_entry(rng), stats=stats)
  # every other source grants everything needed, the enclosing scope does not.
  if info.must:
    lacking = rng.choice([f.value for f in FLAGS if info.must & f.value])
    for kind in ('scope', 'scope+arg', 'nested', 'nested+arg'):
      check_one(ctx, info, ref, kind, entry=rng.choice(INPROC_ALT), stats=stats,
                **supply(rng, kind, exact, lacking))
    check_one(ctx, info, ref, 'scope+arg', outer=ALL, arg=ALL & ~lacking,
              entry=inproc_entry(rng), stats=stats)

  # 4. forked ways of executing (the probe writes to a pipe) x ways of
  #    supplying the permission.
  if i % ctx.params['sandbox_every'] == 0:
    forked_batch(ctx, info, ref, stats, 3, 3)

  if (len(info.classes) >= 2 or info.depth >= 2) and stats['refused'] and stats['executed']:
    ctx.mark_nontrivial(code)
  if i < 2:
    ctx.sample({'program': code, 'required': repr(P(info.must)), 'maybe': repr(P(info.maybe)),
                'reference': 'raises ' + ref.error[0] if ref.error else 'completes',
                'configurations': c['evaluations_by_library']})
