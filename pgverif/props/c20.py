"""C20 — HTML views are well-formed and never let data break out of its text position.

Metamorphic benign-twin oracle.  Every case owns a table of *payload slots*
(kind, hostile text).  A value / control / Html.element call is described once
and built twice under the same options: with the hostile text in every slot and
with the *twin* text (each character outside [A-Za-z0-9] replaced by 'q': same
length, same distinctness).  Both renderings are parsed by the strict checker
`monitors/htmlcheck.py`; data must not alter structure:

  malformed           the twin (benign) rendering violates the strict rules
  injected-element    the hostile rendering has element start tags the twin
                      rendering does not have (always the case for the canary
                      `<zq17 ...>`, which every payload carries)
  injected-attribute  same element names, but additional attribute names
                      (canary attribute `zq17=`)
  structure-differs   otherwise different skeletons (element names, attribute
                      names, nesting) or strict-rule errors only the hostile
                      rendering has
  absent              a key / leaf of the rendered tree is not in the character
                      data (references resolved) of a structurally clean
                      rendering, where the options neither filter nor truncate
  value-modified      to_json(value) (or its format) changed by rendering
  render-raises       the library raised instead of producing a document

The mechanism is the *kind of position* that carried the payload, found by
re-rendering with only one kind hostile: key@summary / key@label (dict keys and
dynamic field names, split by the forced `key_style`), diff-key, root-name,
root-path, str-leaf, repr-leaf, class-name, doc, `<Control>.<field>`,
Html.escape@text / Html.escape@attr; `combination:<subject>` when no single
kind reproduces it.  For a guilty kind the clause does not depend on the random
payload that happened to sit there: it is decided by two fixed probe payloads
(`<zq17 zq17=1>`, inert inside a quoted attribute value, and `" zq17="1`, inert
in a text position) put into every slot of that kind.  For `render-raises` on
the benign build the mechanism is the greedily minimised set of option names.
"""
import html
import itertools
import json
import traceback

import pyglove as pg
from pgverif import models as M
from pgverif.monitors import htmlcheck as HC

Html = pg.Html
C = pg.views.html.controls

TIERS = {
    'quick': dict(shards=8, cases=500),
    'thorough': dict(shards=16, cases=3000),
}
RULE = ('case = one description (60 % nested Dict/List/tuple/Object/Ref/Diff/'
        'contextual value rendered by the tree view under a random option set '
        'drawn from all render arguments, through one of 5 entry points; 28 % a '
        'control tree of Label/Badge/LabelGroup/Tooltip/TabControl/ProgressBar; '
        '12 % a pg.Html.element/escape composition) with 1-25 payload slots; the '
        'hostile and the twin build are rendered under the same options and '
        'compared (plus one rendering per payload kind when they differ). '
        'Non-trivial = at least 3 payload slots of at least 2 kinds were '
        'rendered and the twin comparison, the presence check and the '
        'unchanged-value check were all evaluated; distinct by (description '
        'shape with payload template ids, option set, entry point).')
REQUIRED_COUNTERS = ['strict_parses', 'twin_comparisons', 'canary_checks',
                     'presence_tokens_checked', 'unchanged_value_checks',
                     'tree_cases', 'control_cases', 'api_cases',
                     'hostile_renderings_structurally_clean']
ASSUMPTIONS = [
    'html.parser (CPython 3.12) tokenizes like a browser for the constructs the library emits; '
    'the strict rules (explicit end tags, attribute grammar, no raw <) are stronger than HTML5 parsing',
    'pg.Html objects, inner_html strings, css_classes, styles, ids, titles, colors and CSS selectors '
    'passed by the caller are markup/configuration by contract and are only given benign values',
    'dict keys contain no ".", "[" or "]" (such keys are refused at construction or re-interpreted as paths by `root_path + key`: path addressing, C10)',
    'presence is checked on the character data outside elements of class "tooltip", only for keys/leaves '
    'the options do not filter (no callable include/exclude, root-level key lists modelled), and only on '
    'renderings without structural findings; either repr(s) or s is accepted for a string leaf',
    'option callables depend on path shape and value types only, so they decide identically for the twin',
]

CANARY = 'zq17'
ALL_TREE_KINDS = ('key', 'diff-key', 'root-name', 'root-path', 'str-leaf',
                  'repr-leaf', 'class-name', 'doc')

# (template id, text, usable as dict key)
TEMPLATES = [
    ('elem', '{t}<zq17 zq17="1">', True),
    ('dq-elem', '{t}"><zq17 zq17="1">', True),
    ('sq-elem', "{t}'><zq17 zq17='1'>", True),
    ('close-tags', '{t}</span></div></summary></details></td></tr></table>'
     '<zq17 zq17="1">', True),
    ('comment', '{t}--><zq17 zq17="1"><!--', True),
    ('cdata', '{t}]]><zq17 zq17="1"><![CDATA[', False),
    ('script', '{t}</script></style><zq17 zq17="1"><script>', True),
    ('backslash', '{t}\\"\\><zq17 zq17=\\"1\\">\\', True),
    ('dq-attr', '{t}" zq17="1', True),
    ('sq-attr', "{t}' zq17='1", True),
    ('dq-attr2', '{t}" zq17="1" x="', True),
    ('entities', '{t}&lt;zq17 zq17=&quot;1&quot;&gt;&amp;amp;&#60;&#x3c;', True),
    ('dangling', '{t}& &# &#x &amp &lt<zq17 zq17="1">', True),
    ('rcdata', '{t}<zq17 zq17="1"></textarea></title><svg/onload=zq17>', True),
    ('ws', '{t}<zq17\n\tzq17="1"\n>', True),
    ('unicode', '{t}é日<zq17 zq17="1">  ', True),
    ('open-tag', '{t}<zq17 zq17="1"><zq17 zq17=1 ', True),
    ('open-comment', '{t}<zq17 zq17="1"><!-- ', True),
    ('decl', '{t}<zq17 zq17="1"><?php ?><!DOCTYPE x>', True),
    ('tag-i', '{t}<i>', True),
    ('plain', '{t} plain text', True),
]
# Fixed probes that decide the clause for a guilty payload kind: the first is
# inert inside a quoted attribute value, the second inert in a text position.
PROBES = ['{t}<zq17 zq17=1>', '{t}" zq17="1']
KEY_TEMPLATES = [t for t in TEMPLATES if t[2]]
# repr() of a non-symbolic leaf: multi-line reprs may be re-indented by the
# formatter (layout, not escaping), so no newline there.
REPR_TEMPLATES = [t for t in TEMPLATES if '\n' not in t[1]]


# Keys: no '.', '[' or ']' at all.  A bracket-balanced key such as 'a[b]c' is
# accepted by pg.Dict, but every `root_path + key` (also in the tree view)
# parses it as a path, so it is addressed and displayed as its last element --
# path addressing (C10), not escaping.
assert all(not set('.[]') & set(t[1]) for t in KEY_TEMPLATES)


class Slots:
  """Payload slots of one case."""

  def __init__(self):
    self.items = []     # [(kind, template id, hostile text)]
    self.pads = []
    self.probe = {}     # kind -> probe template replacing every payload of it

  def new(self, rng, kind, templates=None, pad=0):
    tid, tpl, _ = rng.choice(templates or TEMPLATES)
    i = len(self.items)
    text = tpl.replace('{t}', f'p{i}x') + ' pad' * pad
    self.items.append((kind, tid, text))
    self.pads.append(pad)
    return i

  def text(self, i, mode):
    kind, _, t = self.items[i]
    if kind in self.probe:
      t = self.probe[kind].replace('{t}', f'p{i}x') + ' pad' * self.pads[i]
    return t if kind in mode else M.html_twin(t)

  def kinds(self):
    return {k for k, _, _ in self.items}


# ----------------------------------------------------------------------------
# Value descriptions (JSON-able) and their builders.
# ----------------------------------------------------------------------------

class Gen:
  """Generates one tree-view value description."""

  def __init__(self, rng, slots):
    self.rng, self.S = rng, slots
    self.n = 0
    self.paths = []          # container paths (lists of key refs) for uncollapse
    self.class_kinds = set()
    self.uniq = itertools.count(1000)
    # Payloads in keys only in a part of the cases: the other cases explore the
    # remaining positions without the (costly) attribution of key findings.
    self.key_payloads = rng.random() < 0.4

  def keyref(self, key_kind):
    r = self.rng.random()
    if self.key_payloads and r < 0.6:
      return ['slot', self.S.new(self.rng, key_kind, KEY_TEMPLATES)]
    self.n += 1
    return ['plain', f'k{self.n}']

  def leaf(self):
    rng = self.rng
    r = rng.random()
    if r < 0.5:
      pad = rng.choice([0, 0, 0, 2, 8, 25, 70])
      return ['s', self.S.new(rng, 'str-leaf', pad=pad)]
    if r < 0.6:
      return ['r', self.S.new(rng, 'repr-leaf', REPR_TEMPLATES)]
    if r < 0.78:
      return ['i', next(self.uniq) * 7919]
    if r < 0.86:
      return ['f', rng.choice([2.5, -0.75, 1e20, 123456.789, float('inf')])]
    if r < 0.93:
      return ['b', rng.random() < 0.5]
    return ['n']

  def value(self, depth, path, key_kind='key', plain_ok=False):
    rng = self.rng
    self.n += 1
    if depth >= 3 or self.n > 22 or rng.random() < (0.1 + 0.2 * depth):
      return self.leaf()
    r = rng.random()
    kids = rng.randint(0, 4) if depth else rng.randint(1, 5)
    if r < 0.34:
      items = []
      for _ in range(kids):
        k = self.keyref(key_kind)
        items.append([k, self.value(depth + 1, path + [k], key_kind)])
      self.paths.append(path)
      return ['PD' if plain_ok and rng.random() < 0.2 else 'D', items]
    if r < 0.52:
      out = [self.value(depth + 1, path + [['idx', j]], key_kind)
             for j in range(kids)]
      self.paths.append(path)
      return ['PL' if plain_ok and rng.random() < 0.2 else 'L', out]
    if r < 0.57:
      return ['T', [self.leaf() for _ in range(kids)]]
    if key_kind == 'diff-key':
      return self.leaf()      # keep diff operands to Dict/List/leaves
    if r < 0.66:
      self.paths.append(path)
      return ['O', 'Any2',
              self.value(depth + 1, path + [['plain', 'x']]),
              self.value(depth + 1, path + [['plain', 'y']])]
    if r < 0.73:
      self.class_kinds.add('doc')
      self.paths.append(path)
      return ['O', 'Doc', self.value(depth + 1, path + [['plain', 'x']])]
    if r < 0.8:
      self.class_kinds.add('doc')
      items = []
      for _ in range(kids):
        k = self.keyref(key_kind)
        items.append([k, self.value(depth + 1, path + [k])])
      self.paths.append(path)
      return ['Dyn', items]
    if r < 0.88:
      self.class_kinds.add('class-name')
      self.paths.append(path)
      return ['O', rng.choice(['NameElem', 'NameAttr', 'Lambda']),
              self.value(depth + 1, path + [['plain', 'x']]),
              self.value(depth + 1, path + [['plain', 'y']])]
    if r < 0.92:
      if rng.random() < 0.5:
        # Ref has its own summary title (type name of the referred value).
        self.class_kinds.add('class-name')
        return ['R', ['O', rng.choice(['NameElem', 'NameAttr', 'Lambda']),
                      self.leaf(), self.leaf()]]
      return ['R', self.value(depth + 1, path)]
    if r < 0.97:
      return self.diff(depth)
    return ['C', self.leaf()]

  def diff(self, depth):
    """A pg.diff of a Dict/List and an edited copy of it."""
    rng = self.rng
    if rng.random() < 0.3:
      # Diff of two objects of one class: the title is the class name.
      self.class_kinds.add('class-name')
      cls = rng.choice(['NameElem', 'NameAttr', 'Lambda'])
      same = self.leaf()
      return ['X', ['O', cls, same, self.leaf()], ['O', cls, same, self.leaf()],
              rng.choice(['diff', 'both'])]
    left = None
    for _ in range(4):
      left = self.value(max(depth, 1) + 1, [], key_kind='diff-key')
      if left[0] in ('D', 'L'):
        break
    else:
      left = ['D', [[self.keyref('diff-key'), self.leaf()] for _ in range(2)]]

    def edit(d):
      if d[0] == 'D':
        items = []
        for k, v in d[1]:
          r = rng.random()
          if r < 0.15:
            continue
          items.append([k, edit(v) if r < 0.6 else v])
        if rng.random() < 0.4:
          items.append([self.keyref('diff-key'), self.leaf()])
        return ['D', items]
      if d[0] == 'L':
        out = [edit(v) if rng.random() < 0.5 else v for v in d[1]]
        if rng.random() < 0.3:
          out.append(self.leaf())
        return ['L', out]
      return self.leaf() if rng.random() < 0.6 else d
    return ['X', left, edit(left), rng.choice(['diff', 'both'])]


def pick_class(name, mode):
  for kind, pairs in M.HTML_CLASS_PAIRS.items():
    if name in pairs:
      return pairs[name][0 if kind in mode else 1]
  raise KeyError(name)


def key_text(ref, S, mode):
  if ref[0] == 'slot':
    return S.text(ref[1], mode)
  return ref[1]


def build(d, S, mode):
  """Builds the value described by `d` with the kinds in `mode` hostile."""
  t = d[0]
  if t == 's':
    return S.text(d[1], mode)
  if t == 'r':
    return M.ReprLeaf(S.text(d[1], mode))
  if t in ('i', 'f', 'b'):
    return d[1]
  if t == 'n':
    return None
  if t in ('D', 'PD'):
    out = {key_text(k, S, mode): build(v, S, mode) for k, v in d[1]}
    return pg.Dict(out) if t == 'D' else out
  if t in ('L', 'PL'):
    out = [build(v, S, mode) for v in d[1]]
    return pg.List(out) if t == 'L' else out
  if t == 'T':
    return tuple(build(v, S, mode) for v in d[1])
  if t == 'Dyn':
    return pick_class('Dyn', mode)(
        **{key_text(k, S, mode): build(v, S, mode) for k, v in d[1]})
  if t == 'O':
    if d[1] == 'Any2':
      return M.Any2(x=build(d[2], S, mode), y=build(d[3], S, mode))
    if d[1] == 'Doc':
      return pick_class('Doc', mode)(x=build(d[2], S, mode))
    return pick_class(d[1], mode)(x=build(d[2], S, mode), y=build(d[3], S, mode))
  if t == 'R':
    return pg.Ref(build(d[1], S, mode))
  if t == 'X':
    return pg.diff(build(d[1], S, mode), build(d[2], S, mode), mode=d[3])
  if t == 'C':
    return M.CtxParent(v=build(d[1], S, mode), child=M.CtxChild())
  if t == 'W':
    return build_control(d[1], S, mode)
  raise ValueError(t)


def shape(x, S):
  """Description with slot numbers replaced by template ids (fingerprint)."""
  if isinstance(x, list):
    if len(x) >= 2 and x[0] in ('s', 'r', 'slot', 'text') and isinstance(x[1], int):
      return [x[0], S.items[x[1]][1]] + [shape(y, S) for y in x[2:]]
    return [shape(y, S) for y in x]
  if isinstance(x, dict):
    return {k: shape(v, S) for k, v in sorted(x.items())}
  return x


def key_shown(child, flags):
  """Is the name of `child` shown on every route, given the summary options?

  Names live in the child's summary (or in a label cell): `enable_summary=False`
  removes every summary, `enable_summary_for_str=False` those of strings.
  """
  es, esf = flags
  while child[0] == 'R':     # pg.Ref(<non-symbolic>) is the value itself
    child = child[1]
  return es is not False and (esf or child[0] != 's' or es is True)


def expectations(d, S, mode, out, flags=(None, True)):
  """Collects (what, acceptable texts) for keys and leaves that must be shown."""
  t = d[0]
  if t == 's':
    s = S.text(d[1], mode)
    out.append(('str-leaf', [repr(s), s]))
  elif t == 'r':
    out.append(('repr-leaf', [S.text(d[1], mode)]))
  elif t == 'i':
    out.append(('int-leaf', [str(d[1])]))
  elif t == 'f':
    out.append(('float-leaf', [repr(d[1])]))
  elif t in ('D', 'PD', 'Dyn'):
    for k, v in d[1]:
      if key_shown(v, flags):
        out.append(('key', [key_text(k, S, mode)]))
      expectations(v, S, mode, out, flags)
  elif t in ('L', 'PL', 'T'):
    for v in d[1]:
      expectations(v, S, mode, out, flags)
  elif t == 'O':
    for v in d[2:]:
      expectations(v, S, mode, out, flags)
  # R, X, C, W: custom views, no presence claim modelled.


# ----------------------------------------------------------------------------
# Option sets.
# ----------------------------------------------------------------------------

def _fn_key_style(path, value, parent):
  return 'label' if len(path) % 2 else 'summary'


def _fn_color(path, value, parent):
  return ('red', None) if len(path) % 2 else (None, '#eee')


def _fn_include(path, value, parent):
  return not isinstance(value, bool)


def _fn_exclude(path, value, parent):
  return isinstance(value, float)


def _fn_uncollapse(path, value, parent):
  return len(path) <= 2


def _fn_is_int(path, value, parent):
  return isinstance(value, int)


def _fn_is_str(path, value, parent):
  return isinstance(value, str)


FNS = {'key_style': _fn_key_style, 'color': _fn_color, 'include': _fn_include,
       'exclude': _fn_exclude, 'uncollapse': _fn_uncollapse,
       'is_int': _fn_is_int, 'is_str': _fn_is_str}

ENTRIES = ['fn', 'obj', 'method', 'scoped', 'repr_html']


def gen_opts(rng, S, desc, gen):
  """Returns a JSON-able option description."""
  o = {}
  p = rng.choice([0.15, 0.35, 0.6])

  def maybe(name, choices):
    if rng.random() < p:
      o[name] = rng.choice(choices)

  maybe('collapse_level', [None, 0, 1, 2, 5])
  maybe('enable_summary', [None, True, False])
  maybe('enable_summary_for_str', [True, False])
  maybe('max_summary_len_for_str', [0, 5, 20, 80, 300])
  maybe('enable_summary_tooltip', [True, False])
  maybe('enable_key_tooltip', [True, False])
  maybe('key_style', ['summary', 'label', ['fn', 'key_style']])
  maybe('key_color', [None, ['tuple', 'red', '#eee'], ['tuple', None, 'blue'],
                      ['fn', 'color']])
  maybe('summary_color', [None, ['tuple', 'green', None], ['fn', 'color']])
  maybe('highlight', [None, ['fn', 'is_int']])
  maybe('lowlight', [None, ['fn', 'is_str']])
  maybe('debug', [True, False])
  maybe('css_classes', [None, ['list', 'my-class'], ['list', 'c1', 'c2']])
  maybe('title', [None, 'Title'])
  if rng.random() < p:
    o['extra_flags'] = {k: rng.random() < 0.5 for k in
                        rng.sample(['hide_frozen', 'hide_default_values',
                                    'use_inferred'], rng.randint(1, 3))}
  root_keys = ([k for k, _ in desc[1]] if desc[0] in ('D', 'PD', 'Dyn') else
               [['plain', 'x'], ['plain', 'y']] if desc[0] == 'O' else
               [['idx', j] for j in range(len(desc[1]))]
               if desc[0] in ('L', 'PL') else [])
  if root_keys and rng.random() < p:
    r = rng.random()
    if r < 0.6:
      ks = rng.sample(root_keys, rng.randint(1, len(root_keys)))
      o['include_keys'] = ['keys'] + ks + ([['plain', 'nokey']]
                                           if rng.random() < 0.3 else [])
    else:
      o['include_keys'] = ['fn', 'include']
  if root_keys and rng.random() < p:
    if rng.random() < 0.6:
      o['exclude_keys'] = ['keys'] + rng.sample(root_keys, 1)
    else:
      o['exclude_keys'] = ['fn', 'exclude']
  if rng.random() < p:
    if gen.paths and rng.random() < 0.7:
      o['uncollapse'] = ['paths'] + rng.sample(
          gen.paths, min(len(gen.paths), rng.randint(1, 3)))
    else:
      o['uncollapse'] = ['fn', 'uncollapse']
  if root_keys and rng.random() < p:
    cfg = {}
    for name, choices in [('collapse_level', [None, 0, 2]),
                          ('enable_summary_tooltip', [True, False]),
                          ('key_style', ['summary', 'label']),
                          ('max_summary_len_for_str', [0, 10, 200]),
                          ('enable_key_tooltip', [True, False])]:
      if rng.random() < 0.4:
        cfg[name] = rng.choice(choices)
    # `child_config: Dict[str, Any]`: only str-keyed children are addressed.
    target = rng.choice([k for k in root_keys if k[0] != 'idx']
                        + [['plain', '__default__']])
    o['child_config'] = [target, cfg]
  if rng.random() < p:
    o['name'] = rng.choice([['plain', 'nm'],
                            ['slot', S.new(rng, 'root-name', KEY_TEMPLATES)]])
  if rng.random() < p:
    o['root_path'] = rng.choice([
        [['plain', 'rp'], ['idx', 0]],
        [['slot', S.new(rng, 'root-path', KEY_TEMPLATES)], ['plain', 'z']]])
  o['entry'] = rng.choice(ENTRIES)
  o['content_only'] = rng.random() < 0.7
  if o['entry'] == 'scoped':
    names = [k for k in o if k not in ('entry', 'content_only', 'name',
                                       'root_path')]
    o['scoped'] = sorted(rng.sample(names, rng.randint(0, len(names))))
  return o


def _key_value(ref, S, mode):
  return ref[1] if ref[0] == 'idx' else key_text(ref, S, mode)


def build_opts(o, S, mode):
  kw = {}
  for k, v in o.items():
    if k in ('entry', 'content_only', 'scoped'):
      continue
    if isinstance(v, list) and v and v[0] == 'fn':
      kw[k] = FNS[v[1]]
    elif isinstance(v, list) and v and v[0] == 'tuple':
      kw[k] = (v[1], v[2])
    elif isinstance(v, list) and v and v[0] == 'list':
      kw[k] = list(v[1:])
    elif k in ('include_keys', 'exclude_keys'):
      kw[k] = [_key_value(r, S, mode) for r in v[1:]]
    elif k == 'uncollapse':
      kw[k] = [pg.KeyPath([_key_value(r, S, mode) for r in path])
               for path in v[1:]]
    elif k == 'child_config':
      kw[k] = {_key_value(v[0], S, mode): dict(v[1])}
    elif k == 'name':
      kw[k] = key_text(v, S, mode)
    elif k == 'root_path':
      kw[k] = pg.KeyPath([_key_value(r, S, mode) for r in v])
    elif k == 'extra_flags':
      kw[k] = dict(v)
    else:
      kw[k] = v
  return kw


def render_tree(ctx, value, o, kw):
  """Renders `value` through the entry point named in the option description."""
  entry = o['entry']
  co = o['content_only']
  if entry in ('method', 'repr_html') and not isinstance(value, pg.Symbolic):
    entry = 'fn'
  ctx.label = 'render:tree-view/' + entry
  try:
    if entry == 'fn':
      return pg.to_html_str(value, content_only=co, **kw)
    if entry == 'obj':
      return pg.to_html(value, **kw).to_str(content_only=co)
    if entry == 'method':
      return value.to_html_str(content_only=co, **kw)
    if entry == 'scoped':
      outer = {k: v for k, v in kw.items() if k in o.get('scoped', ())}
      inner = {k: v for k, v in kw.items() if k not in outer}
      with pg.view_options(**outer):
        return pg.to_html_str(value, content_only=co, **inner)
    if entry == 'repr_html':
      scoped = {k: v for k, v in kw.items() if k not in ('name', 'root_path')}
      with pg.view_options(**scoped):
        return value._repr_html_()  # pylint: disable=protected-access
    raise ValueError(entry)
  finally:
    ctx.label = None


# ----------------------------------------------------------------------------
# Controls.
# ----------------------------------------------------------------------------

def _textref(rng, S, kind, allow_html=True):
  r = rng.random()
  if r < 0.7:
    return ['slot', S.new(rng, kind)]
  if r < 0.85 or not allow_html:
    return ['plain', 'some text']
  return ['html', '<b class="x">bold</b> &amp; <i>it</i><br>']


def _common(rng):
  d = {}
  if rng.random() < 0.4:
    d['id'] = 'id' + str(rng.randint(0, 99))
  if rng.random() < 0.4:
    d['css_classes'] = rng.choice([['c1'], ['c1', 'c-2']])
  if rng.random() < 0.4:
    d['styles'] = rng.choice([{'color': 'red'},
                              {'background_color': '#eee', 'width': '50%'}])
  return d


def gen_label(rng, S, cls=None):
  d = _common(rng)
  d['text'] = _textref(rng, S, 'Label.text')
  if rng.random() < 0.5:
    d['tooltip'] = _textref(rng, S, 'Tooltip.content')
  if rng.random() < 0.4:
    d['link'] = (['slot', S.new(rng, 'Label.link')] if rng.random() < 0.7
                 else ['plain', 'https://example.com/a?b=1&c=2'])
    if rng.random() < 0.3:
      d['target'] = '_blank'
  if rng.random() < 0.3:
    d['interactive'] = True
  return [cls or rng.choice(['Label', 'Label', 'Badge']), d]


def gen_control(rng, S, depth=0):
  r = rng.random()
  if r < 0.3 or depth >= 2:
    return gen_label(rng, S)
  if r < 0.42:
    d = _common(rng)
    d['labels'] = [gen_label(rng, S) for _ in range(rng.randint(0, 3))]
    if rng.random() < 0.6:
      d['name'] = gen_label(rng, S, 'Label')
    return ['LabelGroup', d]
  if r < 0.54:
    d = _common(rng)
    d['content'] = _textref(rng, S, 'Tooltip.content')
    d['for_element'] = rng.choice(['.x', '#y'])
    return ['Tooltip', d]
  if r < 0.8:
    d = _common(rng)
    tabs = []
    for _ in range(rng.randint(0, 3)):
      t = {'label': (gen_label(rng, S, 'Label') if rng.random() < 0.6
                     else ['str', _textref(rng, S, 'Label.text', False)])}
      rc = rng.random()
      if rc < 0.35:
        g = Gen(rng, S)
        t['content'] = ['value', g.value(1, [])]
        t['class_kinds'] = sorted(g.class_kinds)
      elif rc < 0.7:
        t['content'] = ['control', gen_control(rng, S, depth + 1)]
      else:
        t['content'] = ['html', '<p>tab <b>content</b></p>']
      if rng.random() < 0.3:
        t['css_classes'] = ['tc']
      if rng.random() < 0.3:
        t['name'] = 'tabname'
      tabs.append(t)
    d['tabs'] = tabs
    if tabs:
      d['selected'] = rng.randrange(len(tabs))
    d['tab_position'] = rng.choice(['top', 'left'])
    return ['TabControl', d]
  d = {}
  d['subprogresses'] = [
      [['slot', S.new(rng, 'SubProgress.name')] if rng.random() < 0.6
       else ['plain', rng.choice(['Succeeded', 'failedRuns'])],
       rng.randint(0, 5)] for _ in range(rng.randint(0, 3))]
  d['total'] = rng.choice([None, 10, 20])
  return ['ProgressBar', d]


def _textval(ref, S, mode):
  if ref[0] == 'slot':
    return S.text(ref[1], mode)
  if ref[0] == 'html':
    return Html(ref[1])
  return ref[1]


def build_control(d, S, mode):
  name, a = d
  kw = {k: a[k] for k in ('id', 'css_classes', 'styles', 'interactive',
                          'target', 'for_element', 'selected', 'tab_position',
                          'total') if k in a}
  if 'css_classes' in kw:
    kw['css_classes'] = list(kw['css_classes'])
  if 'styles' in kw:
    kw['styles'] = dict(kw['styles'])
  if name in ('Label', 'Badge'):
    if 'tooltip' in a:
      kw['tooltip'] = _textval(a['tooltip'], S, mode)
    if 'link' in a:
      kw['link'] = _textval(a['link'], S, mode)
    return getattr(C, name)(text=_textval(a['text'], S, mode), **kw)
  if name == 'LabelGroup':
    if 'name' in a:
      kw['name'] = build_control(a['name'], S, mode)
    return C.LabelGroup(labels=[build_control(x, S, mode) for x in a['labels']],
                        **kw)
  if name == 'Tooltip':
    return C.Tooltip(content=_textval(a['content'], S, mode), **kw)
  if name == 'TabControl':
    tabs = []
    for t in a['tabs']:
      lab = (_textval(t['label'][1], S, mode) if t['label'][0] == 'str'
             else build_control(t['label'], S, mode))
      c = t['content']
      if c[0] == 'value':
        content = build(c[1], S, mode)
        # pg.Html.write() *calls* a callable (documented writable type), so a
        # functor object (also behind a pg.Ref, which attribute access
        # dereferences) is not a tab content that would be rendered.
        if (not isinstance(content, pg.Symbolic) or callable(content)
            or isinstance(content, pg.Ref)):
          content = pg.Dict(v=content)
      elif c[0] == 'control':
        content = build_control(c[1], S, mode)
      else:
        content = Html(c[1])
      tk = {k: t[k] for k in ('css_classes', 'name') if k in t}
      tabs.append(C.Tab(label=lab, content=content, **tk))
    return C.TabControl(tabs=tabs, **kw)
  if name == 'ProgressBar':
    return C.ProgressBar(
        subprogresses=[C.SubProgress(name=_textval(n, S, mode), value=v)
                       for n, v in a['subprogresses']], **kw)
  raise ValueError(name)


def control_class_kinds(d, out):
  name, a = d
  for x in a.get('labels', []):
    control_class_kinds(x, out)
  for t in a.get('tabs', []):
    out.update(t.get('class_kinds', ()))
    if t['content'][0] == 'control':
      control_class_kinds(t['content'][1], out)
  return out


def control_expectations(d, S, mode, out):
  """Texts a control must show: label texts and tooltip contents (str only)."""
  name, a = d
  for f, what in (('text', 'Label.text'), ('tooltip', 'Tooltip.content'),
                  ('content', 'Tooltip.content')):
    ref = a.get(f)
    if isinstance(ref, list) and ref and ref[0] in ('slot', 'plain'):
      out.append((what, [_textval(ref, S, mode)]))
  if 'name' in a and isinstance(a['name'], list) and name == 'LabelGroup':
    control_expectations(a['name'], S, mode, out)
  for x in a.get('labels', []):
    control_expectations(x, S, mode, out)
  for t in a.get('tabs', []):
    if t['label'][0] == 'str':
      out.append(('Label.text', [_textval(t['label'][1], S, mode)]))
    else:
      control_expectations(t['label'], S, mode, out)
    if t['content'][0] == 'control':
      control_expectations(t['content'][1], S, mode, out)
    elif t['content'][0] == 'value':
      expectations(t['content'][1], S, mode, out)


# ----------------------------------------------------------------------------
# Oracle.
# ----------------------------------------------------------------------------

def judge(rh, rt):
  """Compares the hostile report with the twin report.

  Returns None or (clause, detail); one clause per comparison, most specific
  first.
  """
  extra_el = rh.elements() - rt.elements()
  if extra_el:
    return ('injected-element',
            f'start tags only in the hostile rendering: {dict(extra_el)}')
  extra_at = rh.attributes() - rt.attributes()
  if extra_at:
    return ('injected-attribute',
            'attributes only in the hostile rendering: '
            f'{sorted(extra_at.elements())[:6]}')
  if rh.skeleton != rt.skeleton:
    return ('structure-differs',
            'skeletons differ at ' + str(HC.skeleton_diff(rh.skeleton,
                                                          rt.skeleton)))
  only_h = set(rh.error_codes()) - set(rt.error_codes())
  if only_h:
    return ('structure-differs',
            f'strict-rule errors only in the hostile rendering: {rh.describe()}')
  return None


def canary_parsed(r):
  return ([e[1] for e in r.events if e[0] in 'SV' and CANARY in e[1]],
          [(e[1], a) for e in r.events if e[0] in 'SV'
           for a in e[2] if CANARY in a])


def _no_opaque(j):
  """Drops pickled payloads of opaque (non-symbolic) members: a pickle of e.g.
  a pg.Html object also contains its lazily filled caches."""
  if isinstance(j, dict):
    if str(j.get('_type', '')).endswith('_OpaqueObject'):
      return {'_type': 'opaque'}
    return {k: _no_opaque(v) for k, v in j.items()}
  if isinstance(j, list):
    return [_no_opaque(v) for v in j]
  return j


def snapshot(v):
  try:
    return 'json:' + json.dumps(_no_opaque(pg.to_json(v)), sort_keys=True)
  except Exception:  # pylint: disable=broad-except
    return 'fmt:' + pg.format(v, compact=True, verbose=True)


class Subject:
  """One thing to render under several hostility modes."""

  name = '?'
  presence_excludes = ('tooltip',)

  def __init__(self, ctx, S):
    self.ctx, self.S = ctx, S

  def kinds(self):
    raise NotImplementedError

  def render(self, mode, variant=None):
    """Returns (html text, expectations, value-changed?)."""
    raise NotImplementedError

  def mechanism(self, kind):
    return kind

  def variants(self, kind):
    return []

  def blame_options(self, ctx):
    """Mechanism for a rendering that raises on the benign build."""
    return 'render:' + self.name

  def case(self):
    return {}


class LibraryRaised(Exception):
  """The library raised while rendering (wrapped so the case can classify it)."""

  def __init__(self, exc):
    super().__init__(repr(exc))
    self.exc = exc


def _lib_raised(e):
  frames = traceback.extract_tb(e.__traceback__)
  fn = frames[-1].filename if frames else ''
  return 'pyglove' in fn and '/pgverif/' not in fn


def evaluate(ctx, subj):
  """The whole oracle for one subject; False if a rendering raised."""
  c = ctx.counters
  S = subj.S
  kinds = sorted(subj.kinds())
  payloads = {f'slot{i}:{k}:{tid}': t for i, (k, tid, t) in enumerate(S.items)}
  case = dict(subj.case(), payloads=payloads)

  def parse(mode, variant=None):
    try:
      text, exp, changed = subj.render(frozenset(mode), variant)
    except Exception as e:  # pylint: disable=broad-except
      if _lib_raised(e):
        raise LibraryRaised(e) from e
      raise
    c['renders'] += 1
    r = HC.check(text)
    c['strict_parses'] += 1
    c['unchanged_value_checks'] += 1
    if changed:
      ctx.violation('value-modified', 'render:' + subj.name, changed, case)
    return text, r, exp

  def absent(r, exp):
    """Indices of expectations not met by the character data of `r`."""
    hay = r.text(exclude_classes=subj.presence_excludes)
    c['presence_tokens_checked'] += len(exp)
    return {j for j, (_, accepted) in enumerate(exp)
            if not any(a in hay for a in accepted)}

  def compare(rh, h_exp, rt, t_missing):
    """Returns (structural verdict, indices absent only in the hostile one)."""
    c['twin_comparisons'] += 1
    c['canary_checks'] += 1
    v = judge(rh, rt)
    els, ats = canary_parsed(rh)
    if (els or ats) and v is None:
      # Cannot happen (a canary is always an extra element/attribute); guard
      # against a monitor bug rather than hide it.
      raise AssertionError('canary parsed but skeletons equal')
    if v is not None:
      return v, set()
    c['hostile_renderings_structurally_clean'] += 1
    return None, absent(rh, h_exp) - t_missing

  def absent_detail(exp, idx, which):
    what, accepted = exp[min(idx)]
    return (f'{what} {accepted[-1]!r} is not in the character data of the '
            f'{which} rendering'
            + (' (outside tooltips)' if subj.presence_excludes else ''))

  # 1. benign twin: must render, strict rules, presence.
  try:
    t_text, rt, t_exp = parse(())
  except LibraryRaised as e:
    c['render_raised'] += 1
    ctx.violation('render-raises', subj.blame_options(ctx),
                  'benign build: ' + ''.join(
                      traceback.format_exception(e.exc))[-2500:], case)
    return False
  if rt.errors:
    ctx.violation('malformed', 'benign:' + subj.name, rt.describe() +
                  '\n' + t_text[:1500], case)
  t_missing = absent(rt, t_exp)
  for j in sorted(t_missing):
    ctx.violation('absent', t_exp[j][0] + '/benign',
                  absent_detail(t_exp, {j}, 'benign') + '\n' + t_text[:1500],
                  case)

  # 2. everything hostile.
  try:
    h_text, rh, h_exp = parse(kinds)
  except LibraryRaised as e:
    c['render_raised'] += 1
    blamed = []
    for k in kinds:
      try:
        parse([k])
      except LibraryRaised:
        blamed.append(k)
    for k in blamed or ['combination:' + subj.name]:
      ctx.violation('render-raises', subj.mechanism(k),
                    'hostile build only: ' + ''.join(
                        traceback.format_exception(e.exc))[-2500:], case)
    return False
  verdict, missing = compare(rh, h_exp, rt, t_missing)
  if verdict is None and not missing:
    return True

  # 3. attribute to payload kinds: one kind hostile at a time.  For a guilty
  # kind the clause is decided by two fixed probe payloads (so that it does not
  # depend on which random payload happened to sit there), per route variant.
  c['hostile_renderings_with_findings'] += 1
  guilty = []
  for k in kinds:
    k_text, rk, k_exp = parse([k])
    c['isolation_renders'] += 1
    vk, mk = compare(rk, k_exp, rt, t_missing)
    if vk is None and not mk:
      continue
    guilty.append(k)
    found = {}        # (clause, mechanism) -> (detail, text)
    has_slots = any(kk == k for kk, _, _ in S.items)
    if has_slots:
      for variant in (subj.variants(k) or [None]):
        mech = subj.mechanism(k) + (f'@{variant}' if variant else '')
        for probe in PROBES:
          S.probe = {k: probe}
          try:
            _, rpt, _ = parse((), variant)
            p_text, rph, _ = parse([k], variant)
          finally:
            S.probe = {}
          c['probe_renders'] += 2
          c['twin_comparisons'] += 1
          vp = judge(rph, rpt)
          if vp is not None:
            found.setdefault((vp[0], mech),
                             (vp[1] + f'\nprobe payload {probe!r}', p_text))
        if variant is not None and not any(m == mech for _, m in found):
          _, rvt, vt_exp = parse((), variant)
          v_text, rvh, vh_exp = parse([k], variant)
          vv, mv = compare(rvh, vh_exp, rvt, absent(rvt, vt_exp))
          if vv is not None:
            found[('structure-differs', mech)] = (vv[1], v_text)
          elif mv:
            found[('absent', mech)] = (absent_detail(vh_exp, mv, 'hostile'),
                                       v_text)
    if not found:
      if vk is not None:
        clause, detail = ('structure-differs' if has_slots else vk[0]), vk[1]
      else:
        clause, detail = 'absent', absent_detail(k_exp, mk, 'hostile')
      found[(clause, subj.mechanism(k))] = (detail, k_text)
    for (clause, mech), (detail, txt) in found.items():
      ctx.violation(clause, mech, f'{detail}\nonly payload kind {k!r} hostile; '
                    f'hostile rendering:\n{txt[:1800]}', case)
  rest = [k for k in kinds if k not in guilty]
  if not guilty:
    detail = verdict[1] if verdict else absent_detail(h_exp, missing, 'hostile')
    ctx.violation(verdict[0] if verdict else 'absent',
                  'combination:' + subj.name,
                  f'{detail}\nno single payload kind reproduces it; kinds '
                  f'{kinds}; hostile rendering:\n{h_text[:1800]}', case)
    return True
  # 4. the remaining kinds together must be clean.
  r_text, rr, r_exp = parse(rest)
  vr, mr = compare(rr, r_exp, rt, t_missing)
  if vr is not None or mr:
    detail = vr[1] if vr else absent_detail(r_exp, mr, 'hostile')
    ctx.violation(vr[0] if vr else 'absent', 'combination:' + subj.name,
                  f'{detail}\nkinds {rest} are clean one at a time but not '
                  f'together; hostile rendering:\n{r_text[:1800]}', case)
  return True


class TreeSubject(Subject):
  name = 'tree-view'

  def __init__(self, ctx, S, desc, opts, class_kinds):
    super().__init__(ctx, S)
    self.desc, self.opts, self.class_kinds = desc, opts, class_kinds

  def kinds(self):
    return self.S.kinds() | self.class_kinds

  def variants(self, kind):
    # Keys take two routes through the tree view: summary name / label cell.
    return ['summary', 'label'] if kind == 'key' else []

  def case(self):
    return {'value': self.desc, 'options': self.opts}

  def blame_options(self, ctx):
    """Greedy minimisation of the options under which the benign build raises."""
    skip = ('entry', 'content_only', 'scoped')
    o = dict(self.opts)

    def raises(o2):
      saved, self.opts = self.opts, o2
      try:
        self.render(frozenset())
        return False
      except Exception as e:  # pylint: disable=broad-except
        if _lib_raised(e):
          return True
        raise
      finally:
        self.opts = saved

    for n in sorted(k for k in o if k not in skip):
      o2 = {k: v for k, v in o.items() if k != n}
      if 'scoped' in o2:
        o2['scoped'] = [x for x in o2['scoped'] if x != n]
      ctx.counters['option_minimisation_renders'] += 1
      if raises(o2):
        o = o2
    rest = [n + ('=fn' if isinstance(o[n], list) and o[n][:1] == ['fn'] else '')
            for n in sorted(o) if n not in skip]
    return 'options:' + '+'.join(rest) if rest else 'render:tree-view'

  def _filters(self, o):
    for k in ('include_keys', 'exclude_keys'):
      if k in o and o[k][0] == 'fn':
        return None
    inc = o.get('include_keys')
    exc = o.get('exclude_keys')
    return (inc[1:] if inc else None, exc[1:] if exc else [])

  def render(self, mode, variant=None):
    S, o = self.S, self.opts
    if variant is not None:
      o = {k: v for k, v in o.items() if k != 'child_config'}
      o['key_style'] = variant
    value = build(self.desc, S, mode)
    kw = build_opts(o, S, mode)
    before = snapshot(value)
    text = render_tree(self.ctx, value, o, kw)
    after = snapshot(value)
    changed = None if before == after else f'before: {before}\nafter:  {after}'
    exp = []
    f = self._filters(o)
    flags = (o.get('enable_summary'), o.get('enable_summary_for_str', True))
    if f is not None:
      inc, exc = f
      d = self.desc

      def shown(ref):
        return (inc is None or ref in inc) and ref not in exc

      if d[0] in ('D', 'PD', 'Dyn'):
        for k, v in d[1]:
          if shown(k):
            if key_shown(v, flags):
              exp.append(('key', [key_text(k, S, mode)]))
            expectations(v, S, mode, exp, flags)
      elif d[0] in ('L', 'PL'):
        for j, v in enumerate(d[1]):
          if shown(['idx', j]):
            expectations(v, S, mode, exp, flags)
      elif d[0] == 'O':
        for nm, v in zip('xy', d[2:]):
          if shown(['plain', nm]):
            expectations(v, S, mode, exp, flags)
      else:
        expectations(d, S, mode, exp, flags)
      if ('name' in o and key_shown(d, flags)
          and not (o['entry'] == 'repr_html'
                   and isinstance(value, pg.Symbolic))):
        exp.append(('root-name', [key_text(o['name'], S, mode)]))
    return text, exp, changed


class ControlSubject(Subject):
  name = 'controls'
  presence_excludes = ()

  def __init__(self, ctx, S, desc, how, class_kinds):
    super().__init__(ctx, S)
    self.desc, self.how, self.class_kinds = desc, how, class_kinds

  def kinds(self):
    return self.S.kinds() | self.class_kinds

  def variants(self, kind):
    return ['summary', 'label'] if kind == 'key' else []

  def case(self):
    return {'control': self.desc, 'how': self.how}

  def render(self, mode, variant=None):
    ctrl = build_control(self.desc, self.S, mode)
    how, co = self.how
    kw = {} if variant is None else {'key_style': variant}
    before = snapshot(ctrl)
    self.ctx.label = 'render:controls/' + how
    try:
      # Controls ignore render arguments; a forced key_style reaches embedded
      # tree views (tab contents) through the scoped view options.
      with pg.view_options(**kw):
        if how == 'method':
          text = ctrl.to_html_str(content_only=co)
        elif how == 'fn':
          text = pg.to_html_str(ctrl, content_only=co)
        elif how == 'to_html':
          text = ctrl.to_html().to_str(content_only=co)
        else:   # a control as a member of a symbolic container
          text = pg.to_html_str(pg.Dict(a=ctrl, b=pg.List([1, ctrl.clone()])),
                                content_only=co)
    finally:
      self.ctx.label = None
    after = snapshot(ctrl)
    changed = None if before == after else f'before: {before}\nafter:  {after}'
    exp = []
    control_expectations(self.desc, self.S, mode, exp)
    return text, exp, changed


class ApiSubject(Subject):
  """pg.Html.escape in text and attribute position of pg.Html.element."""
  name = 'api'

  def __init__(self, ctx, S, desc):
    super().__init__(ctx, S)
    self.desc = desc
    self.exact = None

  def kinds(self):
    return self.S.kinds()

  def variants(self, kind):
    return []

  def case(self):
    return {'api': self.desc}

  def _node(self, d, mode, texts, attrs):
    S = self.S
    t = d[0]
    if t == 'text':          # escaped str
      s = S.text(d[1], mode)
      texts.append(s)
      form = d[2]
      if form == 'str':
        return Html.escape(s)
      if form == 'callable':
        return Html.escape(lambda: s)
      if form == 'html':
        return Html.escape(Html(s))
      return Html.escape(lambda: Html(s))
    if t == 'raw':
      texts.append(d[2])
      return d[1]
    if t == 'none':
      return None
    tag, a, children = d[1], d[2], d[3]
    props = {}
    for name, ref in a.get('props', []):
      if ref[0] == 'slot':
        v = S.text(ref[1], mode)
        attrs.append((name.replace('_', '-'), v))
        props[name] = Html.escape(v)
      else:
        attrs.append((name.replace('_', '-'), ref[1]))
        props[name] = ref[1]
    inner = [self._node(x, mode, texts, attrs) for x in children]
    return Html.element(tag, inner, options=a.get('options'),
                        css_classes=a.get('css_classes'),
                        styles=a.get('styles'), **props)

  def render(self, mode, variant=None):
    texts, attrs = [], []
    self.ctx.label = 'render:api/Html.element+escape'
    try:
      h = self._node(self.desc, mode, texts, attrs)
      text = h.to_str(content_only=True)
    finally:
      self.ctx.label = None
    self.exact = (''.join(texts), attrs)
    return text, [], None


def gen_api(rng, S, depth=0):
  a = {}
  if rng.random() < 0.5:
    a['css_classes'] = rng.choice([['a'], ['a', 'b-c'], ['a', None, ['d']]])
  if rng.random() < 0.3:
    a['styles'] = rng.choice([{'color': 'red'}, 'margin:0;'])
  if rng.random() < 0.2:
    a['options'] = rng.choice(['open', ['open', 'hidden']])
  props = []
  for name in rng.sample(['title', 'data_x', 'href', 'alt', 'aria_label'],
                         rng.randint(0, 3)):
    if rng.random() < 0.8:
      props.append([name, ['slot', S.new(rng, 'Html.escape@attr')]])
    else:
      props.append([name, ['plain', 'v 1']])
  a['props'] = props
  children = []
  for _ in range(rng.randint(0, 3)):
    r = rng.random()
    if r < 0.5:
      children.append(['text', S.new(rng, 'Html.escape@text',
                                     pad=rng.choice([0, 0, 10])),
                       rng.choice(['str', 'str', 'callable', 'html',
                                   'callable-html'])])
    elif r < 0.6:
      children.append(['raw', '<b>x</b>&amp;<br>', 'x&'])
    elif r < 0.67:
      children.append(['none'])
    elif depth < 2:
      children.append(gen_api(rng, S, depth + 1))
  return ['el', rng.choice(['div', 'span', 'details', 'a', 'td', 'p']), a,
          children]


# ----------------------------------------------------------------------------
# Cases.
# ----------------------------------------------------------------------------

def cases(ctx):
  return ctx.params['cases']


def run_case(ctx, i):
  rng = ctx.rng
  c = ctx.counters
  S = Slots()
  r = rng.random()
  if r < 0.6:
    c['tree_cases'] += 1
    g = Gen(rng, S)
    desc = g.value(0, [], plain_ok=True)
    opts = gen_opts(rng, S, desc, g)
    subj = TreeSubject(ctx, S, desc, opts, set(g.class_kinds))
    fp_extra = shape(opts, S)
    c['entry:' + opts['entry']] += 1
    for k in opts:
      c['opt:' + k] += 1
    nopts = len([k for k in opts if k not in ('entry', 'content_only')])
  elif r < 0.88:
    c['control_cases'] += 1
    desc = gen_control(rng, S)
    how = (rng.choice(['method', 'fn', 'to_html', 'member']),
           rng.random() < 0.7)
    subj = ControlSubject(ctx, S, desc, how, control_class_kinds(desc, set()))
    fp_extra = how
    c['control:' + desc[0]] += 1
    nopts = 1
  else:
    c['api_cases'] += 1
    desc = gen_api(rng, S)
    subj = ApiSubject(ctx, S, desc)
    fp_extra = ()
    nopts = 1
  for k, tid, _ in S.items:
    c['slots:' + k] += 1
    c['template:' + tid] += 1

  evaluated = evaluate(ctx, subj)

  if isinstance(subj, ApiSubject):
    # Exact round trip: escaped text and attribute values come back verbatim.
    for mode in (frozenset(), frozenset(subj.kinds())):
      text, _, _ = subj.render(mode)
      rep = HC.check(text)
      want_text, want_attrs = subj.exact
      c['api_roundtrip_checks'] += 1
      if rep.errors:
        continue     # already reported by evaluate()
      if rep.text() != want_text:
        ctx.violation('absent', 'Html.escape@text',
                      f'character data {rep.text()!r} != written text '
                      f'{want_text!r}\n{text[:1500]}', subj.case())
      got = [(n, v) for _, n, v in rep.attrs if n not in ('class', 'style')
             and v is not None]
      # Who escapes an attribute value (the caller with Html.escape, as here,
      # or Html.element itself) is not fixed by the property: a value that
      # comes back escaped exactly once more is accepted.
      twice = [(n, html.escape(v)) for n, v in want_attrs]
      if sorted(got) not in (sorted(want_attrs), sorted(twice)):
        ctx.violation('absent', 'Html.escape@attr',
                      f'attribute values {sorted(got)!r} != written '
                      f'{sorted(want_attrs)!r}\n{text[:1500]}', subj.case())

  kinds_used = S.kinds()
  if evaluated and len(S.items) >= 3 and len(kinds_used) >= 2:
    ctx.mark_nontrivial((shape(desc, S), fp_extra))
  ctx.seen('descriptions', shape(desc, S))
  ctx.seen('payload_kind_sets', sorted(kinds_used | subj.kinds()))
  c['cases_with_nondefault_options>=2'] += nopts >= 2
  if i < 2:
    ctx.sample({'subject': subj.name, 'case': subj.case(),
                'payloads': [list(x) for x in S.items][:8]})
