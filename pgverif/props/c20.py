"""C20 — HTML views are well-formed and never let data break out of its text position.

Metamorphic benign-twin oracle.  Every case owns a table of *payload slots*
(kind, hostile text).  A value / control / Html.element call is described once
and built twice under the same options: with the hostile text in every slot and
with the *twin* text (each character outside [A-Za-z0-9] replaced by 'q': same
length, same distinctness).  Both renderings are parsed by the strict checker
`monitors/htmlcheck.py`; data must not alter structure:

  malformed           the twin (benign) rendering violates the strict rules
  injected-element    the hostile rendering has element start tags the twin
                      rendering does not have (always the case for the canary
                      `<zq17 ...>`, which every payload carries)
  injected-attribute  same element names, but additional attribute names
                      (canary attribute `zq17=`)
  structure-differs   otherwise different skeletons (element names, attribute
                      names, nesting) or strict-rule errors only the hostile
                      rendering has
  absent              a key / leaf of the rendered tree is not in the character
                      data (references resolved) of a structurally clean
                      rendering, where the options neither filter nor truncate
  value-modified      the deep description of the value (to_json; the symbolic
                      fields where there is no JSON form) taken before the
                      first rendering of a new object differs from the one
                      taken after it; mechanism `render:<Control>.<field>`
                      for a field of a library control, else `render:<subject>`
  render-raises       the library raised instead of producing a document
  script-breakout     same elements and attribute names, but the code of an
                      event-handler attribute (`on*`, references resolved,
                      tokenized by `monitors/jscheck.py`) differs from the
                      twin's outside its string literals

The mechanism is the *kind of position* that carried the payload, found by
re-rendering with only one kind hostile: key@summary / key@label (dict keys and
dynamic field names, split by the forced `key_style`), diff-key, root-name,
root-path, str-leaf, repr-leaf, class-name, doc, `<Control>.<field>` (every
string-valued constructor argument of every control: text, tooltip, link,
target, id, css_classes, styles keys and values, tab / sub-progress names;
for the arguments of a Label with its structural position: `@group-name`,
`@group-value`, `@tab-label`, a Tooltip object given to a Label `@label`),
`option:<name>` (the string-valued render options css_classes, title,
key_color, summary_color), Html.escape@text / Html.escape@attr; `combination:<subject>` when no single
kind reproduces it.  Keys with path syntax ('.', '[', ']', ']]>', '', ' ', digit
strings; payload kind `path-key`) have the mechanism `key-with-path-syntax`, or
`child_config@key-with-path-syntax` when the key also names the child in
`child_config` and the rendering is clean without that option.  Containers
bound to a schema (defaults, frozen specs) are rendered under `extra_flags` of
the call and of single children (`child_config`); the presence check models
hide_default_values / hide_frozen per child: `absent:default-value...`,
`absent:frozen-field`, `absent:frozen-element` (list elements).  A control that
cannot be rendered with benign texts is blamed by minimisation:
`render-raises:<Control>.<argument>`.  For a guilty kind the clause does not depend on the random
payload that happened to sit there: it is decided by two fixed probe payloads
(`<zq17 zq17=1>`, inert inside a quoted attribute value, and `" zq17="1`, inert
in a text position) put into every slot of that kind.  For `render-raises` on
the benign build the mechanism is the greedily minimised set of option names.

Histories (14 % of the cases, see the section "Histories"): live interactive
controls and live values go through a short sequence of renderings, public
update methods (scripts captured with HtmlControl.track_scripts()) and
Html.escape calls in which the same payload texts recur, so that state kept
between calls (caches, shared parts, members synchronised by updates) is
exercised in both orders.  Every rendering is judged as above.  The scripts of
an update are judged against the scripts of the twin history:

  script-malformed     a script of the benign history does not tokenize
  script-breakout      the executed code (everything outside string literals)
                       differs from the twin's, or only the hostile script
                       fails to tokenize
  script-text-differs  a string literal does not stand for the twin's literal
                       with the payloads substituted (the text shown after the
                       update is not the text given)

and the HTML a script inserts (innerHTML / insertAdjacentHTML) is a rendering.
Values contain nodes with a view of their own: pg.Ref (also to plain dicts /
lists held by reference), pg.diff, contextual attributes and three user
classes deriving from HtmlTreeView.Extension (content replaced by a member's,
default content wrapped, a non-symbolic class laid out with
`view.complex_value`); for pg.Ref and the user classes the keys and leaves
they show are part of the presence check.

45 % of the histories contain renderings that FAIL midway in user code: a
documented callable option (key_style, key_color, summary_color, highlight,
lowlight, include_keys, exclude_keys, uncollapse) raises at its n-th call, or
the content / summary method of a user extension, or the repr() of a leaf.
Nothing is claimed about the failed rendering itself (if the buggy call is
never made it is an ordinary rendering); the same live object is then
rendered again under a new option set and judged like every rendering.  A
finding of such a rendering that does not persist on new objects has the
mechanism `history:render-after-failed-render`.

Mechanism of a history finding: if it persists on new objects built from the
reference description with texts new to the process, the position kind of a
single rendering, or the update method (`Label.update(text)`, `Tooltip.update`,
`TabControl.append`, `ProgressBar.update`, ...); otherwise
`history:<render|update>-after-<update|render|none>`.
"""
import copy
import html
import itertools
import json
import re
import traceback

import pyglove as pg
from pgverif import models as M
from pgverif.monitors import htmlcheck as HC
from pgverif.monitors import jscheck as JS

Html = pg.Html
C = pg.views.html.controls

TIERS = {
    'quick': dict(shards=8, cases=500),
    'thorough': dict(shards=16, cases=3000),
}
RULE = ('case = one description (52 % nested Dict/List/tuple/Object/Ref/Diff/'
        'contextual value rendered by the tree view under a random option set '
        'drawn from all render arguments, through one of 5 entry points; nodes '
        'with their own view: pg.Ref (also to plain containers), pg.diff, '
        'contextual attributes, 3 user HtmlTreeView.Extension classes; dicts / '
        'lists bound to a schema with defaulted and frozen fields / elements; '
        'keys with path syntax; extra_flags per call and per child; 24 % a '
        'control tree of Label/Badge/LabelGroup/Tooltip/TabControl/ProgressBar '
        'with payloads in every string-valued constructor argument (text, '
        'tooltip, link, target, id, css_classes, styles keys/values, names) and '
        'labels alone / as group name / group value / tab label / given as str, '
        'plain or decorated; every int-valued / optional argument also with '
        'legal values outside the usual range (selected negative or >= the '
        'number of tabs, progress beyond the total, explicit None / empty '
        'arguments, interactive=False), rendered directly or as a node of a '
        'Dict / List rendered by the tree view; '
        '10 % a pg.Html.element/escape composition) with 1-25 payload slots; the '
        'hostile and the twin build are rendered under the same options and '
        'compared (plus one rendering per payload kind when they differ). '
        'Non-trivial = at least 3 payload slots of at least 2 kinds were '
        'rendered and the twin comparison, the presence check and the '
        'unchanged-value check were all evaluated; distinct by (description '
        'shape with payload template ids, option set, entry point).  14 % of '
        'the cases are histories in one process: 1-2 live interactive controls '
        'and live values, 4-9 steps drawn from {render a control, render a '
        'value under a new option set, one public update method (Label/Badge.'
        'update, Tooltip.update, TabControl.append/insert/extend/select, '
        'ProgressBar.update, SubProgress.update/increment, add_style) under '
        'HtmlControl.track_scripts(), Html.escape in text / JavaScript mode}; a '
        'new payload slot repeats the text of an earlier slot with probability '
        '1/2; every step runs with all texts hostile and with all texts twin '
        'and the documents / scripts are compared.  A history is non-trivial '
        'if at least one update script and two renderings were checked and an '
        'update and a rendering (either order) used the same text.  45 % of '
        'the histories also contain renderings of a live value that fail '
        'midway in user code (a callable option, a user extension method or a '
        'repr() raising at its n-th call, n in 1..9), each followed with '
        'probability 0.8 by an ordinary, fully judged rendering of the same '
        'object under a new option set.')
REQUIRED_COUNTERS = ['strict_parses', 'twin_comparisons', 'canary_checks',
                     'presence_tokens_checked', 'unchanged_value_checks',
                     'tree_cases', 'control_cases', 'api_cases',
                     'hostile_renderings_structurally_clean',
                     'history_cases', 'update_scripts_checked',
                     'script_html_fragments_checked',
                     'render_after_update_shared_text',
                     'update_after_render_shared_text',
                     'failing_renderings_raised',
                     'renderings_after_failed_rendering']
ASSUMPTIONS = [
    'html.parser (CPython 3.12) tokenizes like a browser for the constructs the library emits; '
    'the strict rules (explicit end tags, attribute grammar, no raw <) are stronger than HTML5 parsing',
    'pg.Html objects, inner_html strings, CSS selectors (Tooltip.for_element) and CSS text (add_style) '
    'are markup/code by contract and are only given benign values; ids, css classes, styles, targets and '
    'names given to the constructor of a control are data in single renderings and benign in histories '
    '(update scripts address elements by id and class)',
    'an exception raised by user code during a rendering (option callable, extension method, repr) may '
    'surface in any form or be contained by the library: nothing is claimed about that rendering, only '
    'about the renderings after it',
    'every str accepted as a key by pg.Dict / a plain dict / a dynamic field name is data, also when it reads like a path ("a.b", "x[0]", "]]>", "", "0"); '
    'const keys of a schema contain no "." (refused by pg.typing); `child_config` addresses children by their str names only',
    'a field equal to its default may be hidden under hide_default_values, a frozen field with a const key under hide_frozen (default on: the class '
    'implies it, as in Dict.sym_jsonify); the flags in force for a child are those of the call overridden by the child_config entry of THAT child; '
    'the elements of a list are implied by no schema and must be shown',
    'ProgressBar(total=0) is refused at construction (outside the quantifier); a Tooltip is only rendered with a for_element',
    'presence is checked on the character data outside elements of class "tooltip", only for keys/leaves '
    'the options do not filter (no callable include/exclude, root-level key lists modelled), and only on '
    'renderings without structural findings; either repr(s) or s is accepted for a string leaf',
    'option callables depend on path shape and value types only, so they decide identically for the twin',
    'update scripts are those recorded by HtmlControl.track_scripts() (the code handed to the notebook); they '
    'contain string literals in quotes only (no comments, regular expressions, template literals), tokenized '
    'per ECMAScript (raw LF/CR ends a literal)',
    'updates are only called where the contract allows them (interactive controls, existing tabs, total not '
    'set twice); css classes, styles, tab names and pg.Html arguments of updates are configuration/markup '
    'and benign; texts, tooltips, links and the labels/contents of new tabs are data',
    'the texts of a history are unique to its case (prefix h<case>), so a history does not depend on the '
    'cases run before it in the shard and replays alone',
]

CANARY = 'zq17'
ALL_TREE_KINDS = ('key', 'diff-key', 'root-name', 'root-path', 'str-leaf',
                  'repr-leaf', 'class-name', 'doc')

# (template id, text, usable as dict key)
TEMPLATES = [
    ('elem', '{t}<zq17 zq17="1">', True),
    ('dq-elem', '{t}"><zq17 zq17="1">', True),
    ('sq-elem', "{t}'><zq17 zq17='1'>", True),
    ('close-tags', '{t}</span></div></summary></details></td></tr></table>'
     '<zq17 zq17="1">', True),
    ('comment', '{t}--><zq17 zq17="1"><!--', True),
    ('cdata', '{t}]]><zq17 zq17="1"><![CDATA[', False),
    ('script', '{t}</script></style><zq17 zq17="1"><script>', True),
    ('backslash', '{t}\\"\\><zq17 zq17=\\"1\\">\\', True),
    ('dq-attr', '{t}" zq17="1', True),
    ('sq-attr', "{t}' zq17='1", True),
    ('dq-attr2', '{t}" zq17="1" x="', True),
    ('entities', '{t}&lt;zq17 zq17=&quot;1&quot;&gt;&amp;amp;&#60;&#x3c;', True),
    ('dangling', '{t}& &# &#x &amp &lt<zq17 zq17="1">', True),
    ('rcdata', '{t}<zq17 zq17="1"></textarea></title><svg/onload=zq17>', True),
    ('ws', '{t}<zq17\n\tzq17="1"\n>', True),
    ('unicode', '{t}é日<zq17 zq17="1">  ', True),
    ('open-tag', '{t}<zq17 zq17="1"><zq17 zq17=1 ', True),
    ('open-comment', '{t}<zq17 zq17="1"><!-- ', True),
    ('decl', '{t}<zq17 zq17="1"><?php ?><!DOCTYPE x>', True),
    ('tag-i', '{t}<i>', True),
    ('plain', '{t} plain text', True),
]
# Fixed probes that decide the clause for a guilty payload kind: the first is
# inert inside a quoted attribute value, the second inert in a text position,
# the third inert in both (it only ends a single-quoted JavaScript literal of
# an event-handler attribute).
PROBES = ['{t}<zq17 zq17=1>', '{t}" zq17="1', "{t}' zq17='1"]
KEY_TEMPLATES = [t for t in TEMPLATES if t[2]]
# repr() of a non-symbolic leaf: multi-line reprs may be re-indented by the
# formatter (layout, not escaping), so no newline there.
REPR_TEMPLATES = [t for t in TEMPLATES if '\n' not in t[1]]


# Keys of the payload kinds `key` / `diff-key` / `root-name` contain no '.',
# '[' or ']'; keys with path syntax are a payload kind of their own.
assert all(not set('.[]') & set(t[1]) for t in KEY_TEMPLATES)

# Payload kind `path-key`: dict keys (of pg.Dict, plain dicts, dynamic field
# names, diff operands) that read like a path or a part of one -- '.', '[',
# ']', the CDATA terminator ']]>' (named by the quantifier), the empty key, a
# blank, strings of digits.  All of them are accepted as keys by pg.Dict; a key
# is data, whatever it would mean if it were parsed as a path.  Templates
# without '{t}' are the bare texts (single renderings only; one per dict).
PATH_KEY_TEMPLATES = [
    ('pk-dot', '{t}.b', True),
    ('pk-dots', '{t}.b.c<zq17 zq17="1">', True),
    ('pk-index', '{t}[0]', True),
    ('pk-close', '{t}]', True),
    ('pk-open', '[{t}', True),
    ('pk-open2', '{t}[x', True),
    ('pk-cdata', '{t}]]><zq17 zq17="1"><![CDATA[', True),
    ('pk-bare-dot', 'a.b', True),
    ('pk-bare-index', 'x[0]', True),
    ('pk-bare-close', ']', True),
    ('pk-bare-open', '[', True),
    ('pk-bare-cdata', ']]>', True),
    ('pk-bare-empty', '', True),
    ('pk-bare-blank', ' ', True),
    ('pk-bare-int', '0', True),
    ('pk-bare-int2', '12', True),
]
PREFIXED_PATH_KEY_TEMPLATES = [t for t in PATH_KEY_TEMPLATES if '{t}' in t[1]]
# Twins of the bare texts: distinct from each other and from every other key.
BARE_TWINS = {'a.b': 'aqb', 'x[0]': 'xq0q', ']': 'j', '[': 'g', ']]>': 'jjq',
              '': 'e', ' ': 'w', '0': 'o', '12': 'ot'}


TPL = {tid: tpl for tid, tpl, _ in TEMPLATES + PATH_KEY_TEMPLATES}


# ----------------------------------------------------------------------------
# User-side code that can fail: extension classes (HtmlTreeView.Extension with
# overridden content / summary, as pg.Ref and pg.Diff are), a leaf whose repr()
# can raise, option callables that raise.  `ARM` says which of them raises at
# its n-th call during the current rendering (histories, "failing" steps);
# unarmed they behave like ordinary user code.
# ----------------------------------------------------------------------------

TV = pg.views.html.HtmlTreeView
ARM = {'where': None, 'n': 0, 'fired': False}


class UserBug(Exception):
  """Raised by user-side code (callables, extension methods, repr)."""


def _maybe_fail(where):
  if ARM['where'] == where:
    ARM['n'] -= 1
    if ARM['n'] <= 0:
      ARM['fired'] = True
      raise UserBug(where)


class ExtBox(pg.Object, TV.Extension):
  """Shows `x` in its own place (like pg.Ref) under a title of its own."""
  x: pg.typing.Any() = None
  y: pg.typing.Any() = None

  def _html_tree_view_summary(self, *, view, title=None, **kwargs):
    _maybe_fail('ext-summary')
    return view.summary(self, title=title or 'ExtBox of', **kwargs)

  def _html_tree_view_content(self, *, view, **kwargs):
    _maybe_fail('ext-content')
    return view.content(self.sym_getattr('x'), **kwargs)


class ExtWrap(pg.Object, TV.Extension):
  """Delegates to the default content and wraps it (scenario 1 of the docs)."""
  x: pg.typing.Any() = None
  y: pg.typing.Any() = None

  def _html_tree_view_content(self, *, view, **kwargs):
    _maybe_fail('ext-content')
    return Html.element('div', [view.content(self, **kwargs)],
                        css_classes=['ext-wrap'])

  @classmethod
  def _html_tree_view_config(cls):
    return dict(css_classes=['ext-wrapped'])


class ExtPlain(TV.Extension):
  """A non-symbolic user class that lays out its items with the view."""

  def __init__(self, items):
    self.items = items

  def __repr__(self):
    return f'ExtPlain({len(self.items)} items)'

  def _html_tree_view_content(self, *, view, parent=None, root_path=None,
                              **kwargs):
    _maybe_fail('ext-content')
    return view.complex_value(kv=self.items, parent=self, root_path=root_path,
                              **kwargs)


class FlakyRepr(M.ReprLeaf):

  def __repr__(self):
    _maybe_fail('repr')
    return self.text


class Slots:
  """Payload slots of one case.

  Histories set `share_p`: a new slot then repeats, with that probability, the
  text of an earlier slot (same text id, template and padding) whatever its
  kind, so that one text travels through several positions and operations.
  `prefix` makes the texts of a history unique in the process.
  """

  def __init__(self, prefix=''):
    self.items = []     # [(kind, template id, hostile text)]
    self.pads = []
    self.textids = []   # slots with the same text id carry the same text
    self.probe = {}     # kind -> probe template replacing every payload of it
    self.prefix = prefix
    self.share_p = 0.0
    self.html_objs = None   # histories: {(mode, markup): pg.Html} shared objects
    # Controls: are ids / css classes / styles / targets / tab names payload
    # positions (single renderings) or benign configuration (histories, whose
    # update scripts address the elements by id and class)?
    self.config_hostile = True
    self.rich = None        # per-case density of optional control arguments

  def new(self, rng, kind, templates=None, pad=0):
    if self.share_p and self.items and rng.random() < self.share_p:
      allowed = {t[0] for t in (templates or TEMPLATES)}
      cands = [j for j, (_, tid, _) in enumerate(self.items) if tid in allowed]
      if cands:
        j = rng.choice(cands)
        self.items.append((kind, self.items[j][1], self.items[j][2]))
        self.pads.append(self.pads[j])
        self.textids.append(self.textids[j])
        return len(self.items) - 1
    tid, tpl, _ = rng.choice(templates or TEMPLATES)
    i = len(self.items)
    text = tpl.replace('{t}', f'{self.prefix}p{i}x') + ' pad' * pad
    self.items.append((kind, tid, text))
    self.pads.append(pad)
    self.textids.append(i)
    return i

  def text(self, i, mode):
    kind, _, t = self.items[i]
    if kind in self.probe:
      t = (self.probe[kind].replace('{t}', f'{self.prefix}p{self.textids[i]}x')
           + ' pad' * self.pads[i])
    if kind in mode:
      return t
    if kind == 'path-key' and t in BARE_TWINS:
      return BARE_TWINS[t]
    return M.html_twin(t)

  def kinds(self):
    return {k for k, _, _ in self.items}

  def refreshed(self, prefix):
    """The same slots (kinds, templates, sharing) with texts never used before."""
    out = Slots(prefix)
    for (kind, tid, _), pad, textid in zip(self.items, self.pads, self.textids):
      out.items.append((kind, tid, TPL[tid].replace('{t}', f'{prefix}p{textid}x')
                        + ' pad' * pad))
      out.pads.append(pad)
      out.textids.append(textid)
    if self.html_objs is not None:
      out.html_objs = {}
    out.config_hostile = self.config_hostile
    return out


# ----------------------------------------------------------------------------
# Value descriptions (JSON-able) and their builders.
# ----------------------------------------------------------------------------

class Gen:
  """Generates one tree-view value description."""

  def __init__(self, rng, slots):
    self.rng, self.S = rng, slots
    self.n = 0
    self.paths = []          # container paths (lists of key refs) for uncollapse
    self.class_kinds = set()
    self.uniq = itertools.count(1000)
    # Payloads in keys only in a part of the cases: the other cases explore the
    # remaining positions without the (costly) attribution of key findings.
    self.key_payloads = rng.random() < 0.4
    # Histories with failing renderings: more nodes with a view of their own.
    self.ext_bias = False
    # Containers bound to a schema (defaults, frozen specs) were generated.
    self.has_spec = False

  def keyref(self, key_kind, siblings=(), allow_path=True):
    r = self.rng.random()
    if self.key_payloads and r < 0.6:
      templates = KEY_TEMPLATES
      if (allow_path and key_kind in ('key', 'diff-key')
          and self.rng.random() < 0.35):
        key_kind = 'path-key'
        # The bare texts are not unique: not in histories (texts are looked
        # up in update scripts), and once per dict.
        tpl = self.rng.choice(PREFIXED_PATH_KEY_TEMPLATES if self.S.share_p
                              else PATH_KEY_TEMPLATES)
        if any(x[0][0] == 'slot' and self.S.items[x[0][1]][2] == tpl[1]
               for x in siblings):
          tpl = PREFIXED_PATH_KEY_TEMPLATES[0]
        templates = [tpl]
      k = ['slot', self.S.new(self.rng, key_kind, templates)]
      # Histories share texts between slots: no two keys of one dict with the
      # same text (the dict would silently keep one of them).
      tid = self.S.textids[k[1]]
      if not any(x[0][0] == 'slot' and self.S.textids[x[0][1]] == tid
                 for x in siblings):
        return k
    self.n += 1
    return ['plain', f'k{self.n}']

  def leaf(self):
    rng = self.rng
    r = rng.random()
    if r < 0.5:
      pad = rng.choice([0, 0, 0, 2, 8, 25, 70])
      return ['s', self.S.new(rng, 'str-leaf', pad=pad)]
    if r < 0.6:
      return ['r', self.S.new(rng, 'repr-leaf', REPR_TEMPLATES)]
    if r < 0.78:
      return ['i', next(self.uniq) * 7919]
    if r < 0.86:
      return ['f', rng.choice([2.5, -0.75, 1e20, 123456.789, float('inf')])]
    if r < 0.93:
      return ['b', rng.random() < 0.5]
    return ['n']

  def value(self, depth, path, key_kind='key', plain_ok=False):
    rng = self.rng
    self.n += 1
    if depth >= 3 or self.n > 22 or rng.random() < (0.1 + 0.2 * depth):
      return self.leaf()
    if key_kind != 'diff-key' and rng.random() < 0.08:
      return self.specd(path, key_kind)
    r = rng.random()
    kids = rng.randint(0, 4) if depth else rng.randint(1, 5)
    if self.ext_bias and key_kind != 'diff-key' and rng.random() < 0.3:
      r = rng.uniform(0.88, 0.975)
    if r < 0.34:
      items = []
      for _ in range(kids):
        k = self.keyref(key_kind, items)
        items.append([k, self.value(depth + 1, path + [k], key_kind)])
      self.paths.append(path)
      return ['PD' if plain_ok and rng.random() < 0.2 else 'D', items]
    if r < 0.52:
      out = [self.value(depth + 1, path + [['idx', j]], key_kind)
             for j in range(kids)]
      self.paths.append(path)
      return ['PL' if plain_ok and rng.random() < 0.2 else 'L', out]
    if r < 0.57:
      return ['T', [self.leaf() for _ in range(kids)]]
    if key_kind == 'diff-key':
      return self.leaf()      # keep diff operands to Dict/List/leaves
    if r < 0.66:
      self.paths.append(path)
      return ['O', 'Any2',
              self.value(depth + 1, path + [['plain', 'x']]),
              self.value(depth + 1, path + [['plain', 'y']])]
    if r < 0.73:
      self.class_kinds.add('doc')
      self.paths.append(path)
      return ['O', 'Doc', self.value(depth + 1, path + [['plain', 'x']])]
    if r < 0.8:
      self.class_kinds.add('doc')
      items = []
      for _ in range(kids):
        k = self.keyref(key_kind, items)
        items.append([k, self.value(depth + 1, path + [k])])
      self.paths.append(path)
      return ['Dyn', items]
    if r < 0.88:
      self.class_kinds.add('class-name')
      self.paths.append(path)
      return ['O', rng.choice(['NameElem', 'NameAttr', 'Lambda']),
              self.value(depth + 1, path + [['plain', 'x']]),
              self.value(depth + 1, path + [['plain', 'y']])]
    if r < 0.915:
      if rng.random() < 0.35:
        # Ref has its own summary title (type name of the referred value).
        self.class_kinds.add('class-name')
        return ['R', ['O', rng.choice(['NameElem', 'NameAttr', 'Lambda']),
                      self.leaf(), self.leaf()]]
      # The referred value may be a plain dict / list (held by reference).
      return ['R', self.value(depth + 1, path, plain_ok=True)]
    if r < 0.945:
      return self.extension(depth, path)
    if r < 0.98:
      return self.diff(depth)
    return ['C', self.leaf()]

  def specd(self, path, key_kind):
    """A pg.Dict / pg.List bound to a schema, with leaves as children.

    SD: const keys, each field plain / with the value as its default / frozen
    to the value; SL: a list with an element spec (plain / default = the first
    element / frozen to the first element); SN: a dict with a non-const key
    spec (plain / default = the first value).
    """
    rng = self.rng
    self.has_spec = True

    def leaf(like=None):
      if (like[0] == 's') if like else rng.random() < 0.5:
        return ['s', self.S.new(rng, 'str-leaf')]
      return ['i', next(self.uniq) * 7919]

    kind = rng.choice(['SD', 'SD', 'SL', 'SL', 'SN'])
    self.paths.append(path)
    if kind == 'SD':
      items = []
      for _ in range(rng.randint(1, 3)):
        # A const key of a schema may not contain '.'.
        k = self.keyref(key_kind, items, allow_path=False)
        items.append([k, leaf(), rng.choice(['any', 'default', 'default',
                                             'frozen'])])
      return ['SD', items]
    how = rng.choice(['any', 'default', 'default', 'frozen'] if kind == 'SL'
                     else ['any', 'default'])
    first = leaf()
    vals = [first]
    for _ in range(rng.randint(0, 2)):
      vals.append(first if how == 'frozen' or (how == 'default'
                                               and rng.random() < 0.5)
                  else leaf(first))
    if kind == 'SL':
      return ['SL', vals, how]
    items = []
    for v in vals:
      items.append([self.keyref(key_kind, items), v])
    return ['SN', items, how]

  def extension(self, depth, path):
    """A node of a user class that overrides parts of its tree view."""
    rng = self.rng
    variant = rng.choice(['box', 'wrap', 'plain'])
    if variant == 'plain':
      items = []
      for _ in range(rng.randint(1, 3)):
        k = self.keyref('key', items)
        items.append([k, self.value(depth + 1, path + [k])])
      return ['E', 'plain', items]
    if variant == 'box':
      return ['E', 'box', self.value(depth + 1, path, plain_ok=True),
              self.leaf()]
    self.paths.append(path)
    return ['E', 'wrap', self.value(depth + 1, path + [['plain', 'x']]),
            self.value(depth + 1, path + [['plain', 'y']])]

  def diff(self, depth):
    """A pg.diff of a Dict/List and an edited copy of it."""
    rng = self.rng
    if rng.random() < 0.3:
      # Diff of two objects of one class: the title is the class name.
      self.class_kinds.add('class-name')
      cls = rng.choice(['NameElem', 'NameAttr', 'Lambda'])
      same = self.leaf()
      return ['X', ['O', cls, same, self.leaf()], ['O', cls, same, self.leaf()],
              rng.choice(['diff', 'both'])]
    left = None
    for _ in range(4):
      left = self.value(max(depth, 1) + 1, [], key_kind='diff-key')
      if left[0] in ('D', 'L'):
        break
    else:
      left = ['D', []]
      for _ in range(2):
        left[1].append([self.keyref('diff-key', left[1]), self.leaf()])

    def edit(d):
      if d[0] == 'D':
        items = []
        for k, v in d[1]:
          r = rng.random()
          if r < 0.15:
            continue
          items.append([k, edit(v) if r < 0.6 else v])
        if rng.random() < 0.4:
          items.append([self.keyref('diff-key', d[1]), self.leaf()])
        return ['D', items]
      if d[0] == 'L':
        out = [edit(v) if rng.random() < 0.5 else v for v in d[1]]
        if rng.random() < 0.3:
          out.append(self.leaf())
        return ['L', out]
      return self.leaf() if rng.random() < 0.6 else d
    return ['X', left, edit(left), rng.choice(['diff', 'both'])]


def pick_class(name, mode):
  for kind, pairs in M.HTML_CLASS_PAIRS.items():
    if name in pairs:
      return pairs[name][0 if kind in mode else 1]
  raise KeyError(name)


def key_text(ref, S, mode):
  if ref[0] == 'slot':
    return S.text(ref[1], mode)
  return ref[1]


def _leaf_spec(leaf, how, value):
  spec = pg.typing.Str() if leaf[0] == 's' else pg.typing.Int()
  if how == 'default':
    spec.set_default(value)
  elif how == 'frozen':
    spec.freeze(value)
  return spec


def build(d, S, mode):
  """Builds the value described by `d` with the kinds in `mode` hostile."""
  t = d[0]
  if t == 's':
    return S.text(d[1], mode)
  if t == 'r':
    return FlakyRepr(S.text(d[1], mode))
  if t in ('i', 'f', 'b'):
    return d[1]
  if t == 'n':
    return None
  if t in ('D', 'PD'):
    out = {key_text(k, S, mode): build(v, S, mode) for k, v in d[1]}
    return pg.Dict(out) if t == 'D' else out
  if t in ('L', 'PL'):
    out = [build(v, S, mode) for v in d[1]]
    return pg.List(out) if t == 'L' else out
  if t == 'T':
    return tuple(build(v, S, mode) for v in d[1])
  if t == 'SD':
    fields, vals = [], {}
    for k, v, how in d[1]:
      key = key_text(k, S, mode)
      vals[key] = build(v, S, mode)
      fields.append((key, _leaf_spec(v, how, vals[key])))
    return pg.Dict(vals, value_spec=pg.typing.Dict(fields))
  if t == 'SL':
    vals = [build(v, S, mode) for v in d[1]]
    return pg.List(vals, value_spec=pg.typing.List(
        _leaf_spec(d[1][0], d[2], vals[0])))
  if t == 'SN':
    vals = {key_text(k, S, mode): build(v, S, mode) for k, v in d[1]}
    return pg.Dict(vals, value_spec=pg.typing.Dict([(
        pg.typing.StrKey(),
        _leaf_spec(d[1][0][1], d[2], build(d[1][0][1], S, mode)))]))
  if t == 'Dyn':
    return pick_class('Dyn', mode)(
        **{key_text(k, S, mode): build(v, S, mode) for k, v in d[1]})
  if t == 'O':
    if d[1] == 'Any2':
      return M.Any2(x=build(d[2], S, mode), y=build(d[3], S, mode))
    if d[1] == 'Doc':
      return pick_class('Doc', mode)(x=build(d[2], S, mode))
    return pick_class(d[1], mode)(x=build(d[2], S, mode), y=build(d[3], S, mode))
  if t == 'R':
    return pg.Ref(build(d[1], S, mode))
  if t == 'E':
    if d[1] == 'plain':
      return ExtPlain({key_text(k, S, mode): build(v, S, mode)
                       for k, v in d[2]})
    return (ExtBox if d[1] == 'box' else ExtWrap)(
        x=build(d[2], S, mode), y=build(d[3], S, mode))
  if t == 'X':
    return pg.diff(build(d[1], S, mode), build(d[2], S, mode), mode=d[3])
  if t == 'C':
    return M.CtxParent(v=build(d[1], S, mode), child=M.CtxChild())
  if t == 'W':
    return build_control(d[1], S, mode)
  raise ValueError(t)


def shape(x, S):
  """Description with slot numbers replaced by template ids (fingerprint)."""
  if isinstance(x, list):
    if len(x) >= 2 and x[0] in ('s', 'r', 'slot', 'text') and isinstance(x[1], int):
      return [x[0], S.items[x[1]][1]] + [shape(y, S) for y in x[2:]]
    return [shape(y, S) for y in x]
  if isinstance(x, dict):
    return {k: shape(v, S) for k, v in sorted(x.items())}
  return x


def key_shown(child, flags):
  """Is the name of `child` shown on every route, given the summary options?

  Names live in the child's summary (or in a label cell): `enable_summary=False`
  removes every summary, `enable_summary_for_str=False` those of strings.
  """
  es, esf = flags
  while child[0] == 'R':     # pg.Ref(<non-symbolic>) is the value itself
    child = child[1]
  return es is not False and (esf or child[0] != 's' or es is True)


def _same_leaf(a, b, S):
  """Do two leaf descriptions stand for equal values?  (Histories: two slots
  may carry the same text.)"""
  if a[0] != b[0]:
    return False
  return S.textids[a[1]] == S.textids[b[1]] if a[0] == 's' else a[1] == b[1]


def _leaf_exp(v, S, mode, out, what=None):
  if v[0] == 's':
    s = S.text(v[1], mode)
    out.append((what or 'str-leaf', [repr(s), s]))
  else:
    out.append((what or 'int-leaf', [str(v[1])]))


def expectations(d, S, mode, out, flags=(None, True), eff=None):
  """Collects (what, acceptable texts) for keys and leaves that must be shown.

  `eff`: the `extra_flags` in force for this node (those of the call, with
  those of the `child_config` entry of the root child it lies under); `tag`
  in it marks nodes next to a root child that has flags of its own.  A field
  equal to its default may be hidden by hide_default_values, a frozen field
  (a const key of a schema: the class implies it) by hide_frozen, which is on
  by default; the elements of a list are implied by no schema.
  """
  t = d[0]
  eff = eff or {}
  if t in ('SD', 'SL', 'SN'):
    hide_dflt = bool(eff.get('hide_default_values', False))
    tag = eff.get('tag', '')
    if t == 'SD':
      entries = [(k, v, how) for k, v, how in d[1]]
    elif t == 'SL':
      entries = [(None, v, d[2] if _same_leaf(v, d[1][0], S) else 'any')
                 for v in d[1]]
    else:
      entries = [(k, v, d[2] if _same_leaf(v, d[1][0][1], S) else 'any')
                 for k, v in d[1]]
    for k, v, how in entries:
      what = None
      if how != 'any' and hide_dflt:
        continue
      if how == 'frozen':
        if t == 'SD':
          if eff.get('hide_frozen', True):
            continue
          # (A frozen field holds its default value: next to a child with
          # flags of its own it is the same case as a defaulted field.)
          what = 'default-value' + tag if tag else 'frozen-field'
        else:
          what = 'frozen-element'
      elif how == 'default':
        what = 'default-value' + tag
      if k is not None and key_shown(v, flags):
        out.append((what or 'key', [key_text(k, S, mode)]))
      _leaf_exp(v, S, mode, out, what)
    return
  if t == 's':
    s = S.text(d[1], mode)
    out.append(('str-leaf', [repr(s), s]))
  elif t == 'r':
    out.append(('repr-leaf', [S.text(d[1], mode)]))
  elif t == 'i':
    out.append(('int-leaf', [str(d[1])]))
  elif t == 'f':
    out.append(('float-leaf', [repr(d[1])]))
  elif t in ('D', 'PD', 'Dyn'):
    for k, v in d[1]:
      if key_shown(v, flags):
        out.append(('key', [key_text(k, S, mode)]))
      expectations(v, S, mode, out, flags, eff)
  elif t in ('L', 'PL', 'T'):
    for v in d[1]:
      expectations(v, S, mode, out, flags, eff)
  elif t == 'O':
    for v in d[2:]:
      expectations(v, S, mode, out, flags, eff)
  elif t == 'R':
    # "Overrides the content to render the referenced value".
    expectations(d[1], S, mode, out, flags, eff)
  elif t == 'E':
    if d[1] == 'plain':
      for k, v in d[2]:
        if key_shown(v, flags):
          out.append(('key', [key_text(k, S, mode)]))
        expectations(v, S, mode, out, flags, eff)
    else:
      for v in (d[2:3] if d[1] == 'box' else d[2:]):
        expectations(v, S, mode, out, flags, eff)
  # X, C, W: custom views, no presence claim modelled.


# ----------------------------------------------------------------------------
# Option sets.
# ----------------------------------------------------------------------------

def _fn_key_style(path, value, parent):
  return 'label' if len(path) % 2 else 'summary'


def _fn_color(path, value, parent):
  return ('red', None) if len(path) % 2 else (None, '#eee')


def _fn_include(path, value, parent):
  return not isinstance(value, bool)


def _fn_exclude(path, value, parent):
  return isinstance(value, float)


def _fn_uncollapse(path, value, parent):
  return len(path) <= 2


def _fn_is_int(path, value, parent):
  return isinstance(value, int)


def _fn_is_str(path, value, parent):
  return isinstance(value, str)


FNS = {'key_style': _fn_key_style, 'color': _fn_color, 'include': _fn_include,
       'exclude': _fn_exclude, 'uncollapse': _fn_uncollapse,
       'is_int': _fn_is_int, 'is_str': _fn_is_str}

ENTRIES = ['fn', 'obj', 'method', 'scoped', 'repr_html']

# Documented callable options -> the well-behaved function they wrap when they
# are made to fail.
FAILABLE_OPTS = [('key_style', 'key_style'), ('key_color', 'color'),
                 ('summary_color', 'color'), ('highlight', 'is_int'),
                 ('lowlight', 'is_str'), ('include_keys', 'include'),
                 ('exclude_keys', 'exclude'), ('uncollapse', 'uncollapse')]


def failing_fn(fn, n):
  """`fn` with a bug: its n-th call in this rendering raises."""
  calls = [0]

  def buggy(path, value, parent):
    calls[0] += 1
    if calls[0] >= n:
      ARM['fired'] = True
      raise UserBug('option callable')
    return fn(path, value, parent)
  return buggy


def gen_opts(rng, S, desc, gen):
  """Returns a JSON-able option description."""
  o = {}
  p = rng.choice([0.15, 0.35, 0.6])

  def maybe(name, choices):
    if rng.random() < p:
      o[name] = rng.choice(choices)

  maybe('collapse_level', [None, 0, 1, 2, 5])
  maybe('enable_summary', [None, True, False])
  maybe('enable_summary_for_str', [True, False])
  maybe('max_summary_len_for_str', [0, 5, 20, 80, 300])
  maybe('enable_summary_tooltip', [True, False])
  maybe('enable_key_tooltip', [True, False])
  maybe('key_style', ['summary', 'label', ['fn', 'key_style']])
  maybe('key_color', [None, ['tuple', 'red', '#eee'], ['tuple', None, 'blue'],
                      ['fn', 'color']])
  maybe('summary_color', [None, ['tuple', 'green', None], ['fn', 'color']])
  maybe('highlight', [None, ['fn', 'is_int']])
  maybe('lowlight', [None, ['fn', 'is_str']])
  maybe('debug', [True, False])
  maybe('css_classes', [None, ['list', 'my-class'], ['list', 'c1', 'c2']])
  maybe('title', [None, 'Title'])
  # The string-valued options are payload positions as well (half of the time).
  if o.get('css_classes') and rng.random() < 0.5:
    o['css_classes'] = ['list'] + [
        ['slot', S.new(rng, 'option:css_classes')] if rng.random() < 0.7 else x
        for x in o['css_classes'][1:]]
  if o.get('title') and rng.random() < 0.5:
    o['title'] = ['slot', S.new(rng, 'option:title')]
  for k in ('key_color', 'summary_color'):
    if (isinstance(o.get(k), list) and o[k][0] == 'tuple'
        and rng.random() < 0.5):
      o[k] = ['tuple'] + [
          x if x is None else ['slot', S.new(rng, 'option:' + k)]
          for x in o[k][1:]]
  # Values with schema-bound containers: the flags that decide which of
  # their entries are shown are drawn more often, for the call and per child.
  pf = max(p, 0.5) if gen.has_spec else p

  def flags():
    return {k: rng.random() < 0.5 for k in
            rng.sample(['hide_frozen', 'hide_default_values', 'use_inferred'],
                       rng.randint(1, 3))}

  if rng.random() < (pf if rng.random() < 0.6 else p):
    o['extra_flags'] = flags()
  root_keys = ([k for k, _ in desc[1]] if desc[0] in ('D', 'PD', 'Dyn') else
               [['plain', 'x'], ['plain', 'y']] if desc[0] == 'O' else
               [['idx', j] for j in range(len(desc[1]))]
               if desc[0] in ('L', 'PL') else [])
  if root_keys and rng.random() < p:
    r = rng.random()
    if r < 0.6:
      ks = rng.sample(root_keys, rng.randint(1, len(root_keys)))
      o['include_keys'] = ['keys'] + ks + ([['plain', 'nokey']]
                                           if rng.random() < 0.3 else [])
    else:
      o['include_keys'] = ['fn', 'include']
  if root_keys and rng.random() < p:
    if rng.random() < 0.6:
      o['exclude_keys'] = ['keys'] + rng.sample(root_keys, 1)
    else:
      o['exclude_keys'] = ['fn', 'exclude']
  if rng.random() < p:
    if gen.paths and rng.random() < 0.7:
      o['uncollapse'] = ['paths'] + rng.sample(
          gen.paths, min(len(gen.paths), rng.randint(1, 3)))
    else:
      o['uncollapse'] = ['fn', 'uncollapse']
  if root_keys and rng.random() < pf:
    # `child_config: Dict[str, Any]`: only str-keyed children are addressed.
    # Every render argument can be overridden per child, extra_flags included.
    targets = [k for k in root_keys if k[0] != 'idx'] + [['plain', '__default__']]
    if S.share_p:
      # Histories: a rendering that raises would end the history; the names
      # of children with path syntax are left to the single renderings.
      targets = [k for k in targets
                 if not (k[0] == 'slot' and S.items[k[1]][0] == 'path-key')]
    pairs = []
    for target in rng.sample(targets, rng.choice([1, 1, min(2, len(targets))])):
      cfg = {}
      for name, choices in [('collapse_level', [None, 0, 2]),
                            ('enable_summary_tooltip', [True, False]),
                            ('key_style', ['summary', 'label']),
                            ('max_summary_len_for_str', [0, 10, 200]),
                            ('enable_key_tooltip', [True, False])]:
        if rng.random() < 0.4:
          cfg[name] = rng.choice(choices)
      if rng.random() < (0.6 if gen.has_spec else 0.25):
        cfg['extra_flags'] = flags()
      pairs.append([target, cfg])
    o['child_config'] = ['multi'] + pairs
  if rng.random() < p:
    o['name'] = rng.choice([['plain', 'nm'],
                            ['slot', S.new(rng, 'root-name', KEY_TEMPLATES)]])
  if rng.random() < p:
    o['root_path'] = rng.choice([
        [['plain', 'rp'], ['idx', 0]],
        [['slot', S.new(rng, 'root-path', KEY_TEMPLATES)], ['plain', 'z']]])
  o['entry'] = rng.choice(ENTRIES)
  o['content_only'] = rng.random() < 0.7
  if o['entry'] == 'scoped':
    names = [k for k in o if k not in ('entry', 'content_only', 'name',
                                       'root_path')]
    o['scoped'] = sorted(rng.sample(names, rng.randint(0, len(names))))
  return o


def _key_value(ref, S, mode):
  return ref[1] if ref[0] == 'idx' else key_text(ref, S, mode)


def child_config_pairs(v):
  """[(target key ref, config)] of a child_config description."""
  return [tuple(x) for x in v[1:]] if v[0] == 'multi' else [(v[0], v[1])]


def build_opts(o, S, mode):
  kw = {}
  for k, v in o.items():
    if k in ('entry', 'content_only', 'scoped'):
      continue
    if isinstance(v, list) and v and v[0] == 'fn':
      kw[k] = FNS[v[1]]
    elif isinstance(v, list) and v and v[0] == 'failfn':
      kw[k] = failing_fn(FNS[v[1]], v[2])
    elif isinstance(v, list) and v and v[0] == 'tuple':
      kw[k] = tuple(key_text(x, S, mode) if isinstance(x, list) else x
                    for x in v[1:])
    elif isinstance(v, list) and v and v[0] == 'list':
      kw[k] = [key_text(x, S, mode) if isinstance(x, list) else x
               for x in v[1:]]
    elif k == 'title':
      kw[k] = key_text(v, S, mode) if isinstance(v, list) else v
    elif k in ('include_keys', 'exclude_keys'):
      kw[k] = [_key_value(r, S, mode) for r in v[1:]]
    elif k == 'uncollapse':
      kw[k] = [pg.KeyPath([_key_value(r, S, mode) for r in path])
               for path in v[1:]]
    elif k == 'child_config':
      kw[k] = {_key_value(t, S, mode): copy.deepcopy(cfg)
               for t, cfg in child_config_pairs(v)}
    elif k == 'name':
      kw[k] = key_text(v, S, mode)
    elif k == 'root_path':
      kw[k] = pg.KeyPath([_key_value(r, S, mode) for r in v])
    elif k == 'extra_flags':
      kw[k] = dict(v)
    else:
      kw[k] = v
  return kw


def render_tree(ctx, value, o, kw):
  """Renders `value` through the entry point named in the option description."""
  entry = o['entry']
  co = o['content_only']
  if entry in ('method', 'repr_html') and not isinstance(value, pg.Symbolic):
    entry = 'fn'
  ctx.label = 'render:tree-view/' + entry
  try:
    if entry == 'fn':
      return pg.to_html_str(value, content_only=co, **kw)
    if entry == 'obj':
      return pg.to_html(value, **kw).to_str(content_only=co)
    if entry == 'method':
      return value.to_html_str(content_only=co, **kw)
    if entry == 'scoped':
      outer = {k: v for k, v in kw.items() if k in o.get('scoped', ())}
      inner = {k: v for k, v in kw.items() if k not in outer}
      with pg.view_options(**outer):
        return pg.to_html_str(value, content_only=co, **inner)
    if entry == 'repr_html':
      scoped = {k: v for k, v in kw.items() if k not in ('name', 'root_path')}
      with pg.view_options(**scoped):
        return value._repr_html_()  # pylint: disable=protected-access
    raise ValueError(entry)
  finally:
    ctx.label = None


# ----------------------------------------------------------------------------
# Controls.
# ----------------------------------------------------------------------------

def _textref(rng, S, kind, allow_html=True):
  r = rng.random()
  if r < 0.7:
    return ['slot', S.new(rng, kind)]
  if r < 0.85 or not allow_html:
    return ['plain', 'some text']
  return ['html', '<b class="x">bold</b> &amp; <i>it</i><br>']


def _rich(rng, S):
  """Per-case density of the optional arguments of a control: plain controls
  (text only) and fully decorated ones are both frequent."""
  if S.rich is None:
    S.rich = rng.choice([0.06, 0.3, 0.55])
  return S.rich


def _cfg(rng, S, kind, benign, templates=None):
  """A configuration string (id, css class, style key / value, target, tab
  name): a payload slot in single renderings, the benign text in histories."""
  if S.config_hostile and rng.random() < 0.6:
    return ['slot', S.new(rng, kind, templates)]
  return benign


def _common(rng, S, cls, pos=''):
  """id / css_classes / styles of a control of class `cls`; `pos` is the
  structural position of a label (@group-name, @group-value, @tab-label,
  @progress) and part of the payload kind."""
  p = _rich(rng, S)
  d = {}
  if rng.random() < 0.08:
    # Optional arguments given explicitly with their empty value.
    d.update(rng.choice([{'id': None}, {'css_classes': []}, {'styles': {}},
                         {'id': None, 'css_classes': [], 'styles': {}}]))
    return d
  if rng.random() < p:
    d['id'] = _cfg(rng, S, f'{cls}.id{pos}', 'id' + str(rng.randint(0, 99)))
  if rng.random() < max(p, 0.4):
    d['css_classes'] = [_cfg(rng, S, f'{cls}.css_classes{pos}', c)
                        for c in rng.choice([['c1'], ['c1', 'c-2']])]
  if rng.random() < p:
    base = rng.choice([{'color': 'red'},
                       {'background_color': '#eee', 'width': '50%'}])
    if S.config_hostile:
      d['styles'] = ['pairs'] + [
          [_cfg(rng, S, f'{cls}.styles{pos}', k, KEY_TEMPLATES),
           _cfg(rng, S, f'{cls}.styles{pos}', v)] for k, v in base.items()]
    else:
      d['styles'] = base
  return d


def gen_label(rng, S, cls=None, pos=''):
  p = _rich(rng, S)
  d = _common(rng, S, 'Label', pos)
  d['text'] = _textref(rng, S, 'Label.text')
  if rng.random() < 0.05 + 0.9 * p:
    if S.config_hostile and rng.random() < 0.3:
      # A Tooltip object with arguments of its own instead of a str.
      t = _common(rng, S, 'Tooltip', '@label')
      t['content'] = _textref(rng, S, 'Tooltip.content')
      d['tooltip'] = ['ctl', ['Tooltip', t]]
    else:
      d['tooltip'] = _textref(rng, S, 'Tooltip.content')
  if rng.random() < 0.75 * p:
    d['link'] = (['slot', S.new(rng, 'Label.link')] if rng.random() < 0.7
                 else ['plain', 'https://example.com/a?b=1&c=2'])
    if rng.random() < 0.3:
      d['target'] = _cfg(rng, S, 'Label.target' + pos, '_blank')
  if rng.random() < 0.08:
    for f in rng.sample(['tooltip', 'link', 'target'], rng.randint(1, 3)):
      d.setdefault(f, None)     # `Optional[...] = None` given explicitly
  if rng.random() < 0.25:
    d['interactive'] = True
  elif rng.random() < 0.05:
    d['interactive'] = False
  return [cls or rng.choice(['Label', 'Label', 'Badge']), d]


def gen_member(rng, S, pos, cls=None):
  """A name / value of a label group: a Label, or (single renderings) a str
  that the group converts to a Label."""
  if S.config_hostile and rng.random() < 0.2:
    return ['str', _textref(rng, S, 'Label.text', False)]
  return gen_label(rng, S, cls, pos)


def gen_tab(rng, S, depth=0):
  t = {'label': (gen_label(rng, S, 'Label', '@tab-label')
                 if rng.random() < 0.6
                 else ['str', _textref(rng, S, 'Label.text', False)])}
  rc = rng.random()
  if rc < 0.35:
    g = Gen(rng, S)
    t['content'] = ['value', g.value(1, [])]
    t['class_kinds'] = sorted(g.class_kinds)
  elif rc < 0.7:
    t['content'] = ['control', gen_control(rng, S, depth + 1)]
  else:
    t['content'] = ['html', '<p>tab <b>content</b></p>']
  if rng.random() < 0.3:
    t['css_classes'] = [_cfg(rng, S, 'Tab.css_classes', 'tc')]
  if rng.random() < 0.3:
    t['name'] = _cfg(rng, S, 'Tab.name', 'tabname')
  return t


def gen_selected(rng, n):
  """`selected: int` of a TabControl with n tabs.  The field has no range
  validation: an index counted from the end, an index below -n and an index
  >= n (no tab is shown as selected) are legal values like 0..n-1."""
  r = rng.random()
  if n and r < 0.5:
    return rng.randrange(n)
  if n and r < 0.68:
    return -rng.randint(1, n)
  if r < 0.82:
    return -n - rng.randint(1, 3)
  return n + rng.choice([0, 0, 1, 4])


def gen_control(rng, S, depth=0):
  r = rng.random()
  if r < 0.3 or depth >= 2:
    return gen_label(rng, S)
  if r < 0.46:
    d = _common(rng, S, 'LabelGroup')
    d['labels'] = [gen_member(rng, S, '@group-value')
                   for _ in range(rng.randint(0, 3))]
    if rng.random() < 0.6:
      d['name'] = gen_member(rng, S, '@group-name', 'Label')
    elif rng.random() < 0.2:
      d['name'] = None
    if rng.random() < 0.2:
      d['interactive'] = True
    return ['LabelGroup', d]
  if r < 0.56:
    d = _common(rng, S, 'Tooltip')
    d['content'] = _textref(rng, S, 'Tooltip.content')
    d['for_element'] = rng.choice(['.x', '#y'])
    return ['Tooltip', d]
  if r < 0.8:
    d = _common(rng, S, 'TabControl')
    tabs = [gen_tab(rng, S, depth) for _ in range(rng.randint(0, 3))]
    d['tabs'] = tabs
    if tabs or rng.random() < 0.5:
      d['selected'] = gen_selected(rng, len(tabs))
    d['tab_position'] = rng.choice(['top', 'left'])
    if rng.random() < 0.1:
      # `interactive` is a field of every control (TabControl and ProgressBar
      # default to True).
      d['interactive'] = rng.random() < 0.5
    return ['TabControl', d]
  d = _common(rng, S, 'ProgressBar') if S.config_hostile else {}
  d['subprogresses'] = []
  for _ in range(rng.randint(0, 3)):
    sp = [['slot', S.new(rng, 'SubProgress.name')] if rng.random() < 0.6
          else ['plain', rng.choice(['Succeeded', 'failedRuns'])],
          # Steps beyond the total are legal (`value: int`).
          rng.randint(0, 5) if rng.random() < 0.75
          else rng.choice([12, 25, 40])]
    if S.config_hostile:
      sp.append(_common(rng, S, 'SubProgress'))
    d['subprogresses'].append(sp)
  # total=0 is refused at construction (ZeroDivisionError / `assert total > 0`).
  d['total'] = rng.choice([None, None, 10, 20, 1, 3])
  if rng.random() < 0.1:
    d['interactive'] = rng.random() < 0.5
  return ['ProgressBar', d]


def _textval(ref, S, mode):
  if ref[0] == 'slot':
    return S.text(ref[1], mode)
  if ref[0] == 'html':
    if S.html_objs is None:
      return Html(ref[1])
    # Histories: one pg.Html object per world and markup, used by every
    # control / update that refers to it (markup by contract, shared object).
    return S.html_objs.setdefault((mode, ref[1]), Html(ref[1]))
  return ref[1]


def _cfgval(x, S, mode):
  return _textval(x, S, mode) if isinstance(x, list) else x


def _config_kw(a, S, mode):
  kw = {}
  if 'id' in a:
    kw['id'] = _cfgval(a['id'], S, mode)
  if 'css_classes' in a:
    kw['css_classes'] = [_cfgval(c, S, mode) for c in a['css_classes']]
  if 'styles' in a:
    st = a['styles']
    if isinstance(st, list):
      kw['styles'] = {_cfgval(k, S, mode): _cfgval(v, S, mode)
                      for k, v in st[1:]}
    else:
      kw['styles'] = dict(st)
  return kw


def build_member(d, S, mode):
  return (_textval(d[1], S, mode) if d[0] == 'str'
          else build_control(d, S, mode))


def build_tab(t, S, mode):
  lab = build_member(t['label'], S, mode)
  c = t['content']
  if c[0] == 'value':
    content = build(c[1], S, mode)
    # pg.Html.write() *calls* a callable (documented writable type), so a
    # functor object (also behind a pg.Ref, which attribute access
    # dereferences) is not a tab content that would be rendered.
    # A container bound to a schema of its own is refused by the field
    # `content` at construction.
    if (not isinstance(content, pg.Symbolic) or callable(content)
        or isinstance(content, pg.Ref) or c[1][0] in ('SD', 'SL', 'SN')):
      content = pg.Dict(v=content)
  elif c[0] == 'control':
    content = build_control(c[1], S, mode)
  else:
    content = _textval(c, S, mode)
  tk = {}
  if 'css_classes' in t:
    tk['css_classes'] = [_cfgval(x, S, mode) for x in t['css_classes']]
  if 'name' in t:
    tk['name'] = _cfgval(t['name'], S, mode)
  return C.Tab(label=lab, content=content, **tk)


def build_control(d, S, mode):
  name, a = d
  kw = {k: a[k] for k in ('interactive', 'for_element', 'selected',
                          'tab_position', 'total') if k in a}
  kw.update(_config_kw(a, S, mode))
  if name in ('Label', 'Badge'):
    if 'tooltip' in a:
      kw['tooltip'] = (None if a['tooltip'] is None
                       else build_control(a['tooltip'][1], S, mode)
                       if a['tooltip'][0] == 'ctl'
                       else _textval(a['tooltip'], S, mode))
    if 'link' in a:
      kw['link'] = None if a['link'] is None else _textval(a['link'], S, mode)
    if 'target' in a:
      kw['target'] = _cfgval(a['target'], S, mode)
    return getattr(C, name)(text=_textval(a['text'], S, mode), **kw)
  if name == 'LabelGroup':
    if 'name' in a:
      kw['name'] = (None if a['name'] is None
                    else build_member(a['name'], S, mode))
    return C.LabelGroup(labels=[build_member(x, S, mode) for x in a['labels']],
                        **kw)
  if name == 'Tooltip':
    return C.Tooltip(content=_textval(a['content'], S, mode), **kw)
  if name == 'TabControl':
    tabs = [build_tab(t, S, mode) for t in a['tabs']]
    return C.TabControl(tabs=tabs, **kw)
  if name == 'ProgressBar':
    return C.ProgressBar(
        subprogresses=[C.SubProgress(name=_textval(sp[0], S, mode), value=sp[1],
                                     **_config_kw(sp[2] if len(sp) > 2 else {},
                                                  S, mode))
                       for sp in a['subprogresses']], **kw)
  raise ValueError(name)


def control_class_kinds(d, out):
  name, a = d
  if name == 'str':
    return out
  for x in a.get('labels', []):
    control_class_kinds(x, out)
  for t in a.get('tabs', []):
    out.update(t.get('class_kinds', ()))
    if t['content'][0] == 'control':
      control_class_kinds(t['content'][1], out)
  return out


def control_expectations(d, S, mode, out):
  """Texts a control must show: label texts and tooltip contents (str only)."""
  name, a = d
  if name == 'str':
    out.append(('Label.text', [_textval(a, S, mode)]))
    return
  for f, what in (('text', 'Label.text'), ('tooltip', 'Tooltip.content'),
                  ('content', 'Tooltip.content')):
    ref = a.get(f)
    if isinstance(ref, list) and ref and ref[0] in ('slot', 'plain'):
      out.append((what, [_textval(ref, S, mode)]))
    elif isinstance(ref, list) and ref and ref[0] == 'ctl':
      control_expectations(ref[1], S, mode, out)
  if 'name' in a and isinstance(a['name'], list) and name == 'LabelGroup':
    control_expectations(a['name'], S, mode, out)
  for x in a.get('labels', []):
    control_expectations(x, S, mode, out)
  for t in a.get('tabs', []):
    control_expectations(t['label'], S, mode, out)
    if t['content'][0] == 'control':
      control_expectations(t['content'][1], S, mode, out)
    elif t['content'][0] == 'value':
      expectations(t['content'][1], S, mode, out)


# ----------------------------------------------------------------------------
# Oracle.
# ----------------------------------------------------------------------------

def judge(rh, rt):
  """Compares the hostile report with the twin report.

  Returns None or (clause, detail); one clause per comparison, most specific
  first.
  """
  extra_el = rh.elements() - rt.elements()
  if extra_el:
    return ('injected-element',
            f'start tags only in the hostile rendering: {dict(extra_el)}')
  extra_at = rh.attributes() - rt.attributes()
  if extra_at:
    return ('injected-attribute',
            'attributes only in the hostile rendering: '
            f'{sorted(extra_at.elements())[:6]}')
  if rh.skeleton != rt.skeleton:
    return ('structure-differs',
            'skeletons differ at ' + str(HC.skeleton_diff(rh.skeleton,
                                                          rt.skeleton)))
  only_h = set(rh.error_codes()) - set(rt.error_codes())
  if only_h:
    return ('structure-differs',
            f'strict-rule errors only in the hostile rendering: {rh.describe()}')
  # Same elements and attribute names: the event handlers (`on*` attribute
  # values, references resolved) must execute the same code as the twin's.
  for (tag, n, vh), (_, _, vt) in zip(
      [x for x in rh.attrs if x[1].startswith('on')],
      [x for x in rt.attrs if x[1].startswith('on')]):
    sh, st = JS.scan(vh or ''), JS.scan(vt or '')
    if st.errors:
      continue          # reported as `malformed` for the benign rendering
    if sh.errors or sh.skeleton != st.skeleton:
      return ('script-breakout',
              f'the code of the handler <{tag} {n}={vh!r}> differs from the '
              f'twin\'s {vt!r}: ' + (sh.describe() or
                                     f'{sh.skeleton!r} vs {st.skeleton!r}'))
  return None


def canary_parsed(r):
  return ([e[1] for e in r.events if e[0] in 'SV' and CANARY in e[1]],
          [(e[1], a) for e in r.events if e[0] in 'SV'
           for a in e[2] if CANARY in a])


def _no_opaque(j):
  """Drops pickled payloads of opaque (non-symbolic) members: a pickle of e.g.
  a pg.Html object also contains its lazily filled caches."""
  if isinstance(j, dict):
    if str(j.get('_type', '')).endswith('_OpaqueObject'):
      return {'_type': 'opaque'}
    return {k: _no_opaque(v) for k, v in j.items()}
  if isinstance(j, list):
    return [_no_opaque(v) for v in j]
  return j


def snapshot(v):
  """A deep description of `v` (a string, no reference to `v`): every symbolic
  field of every node, whatever its value.  Taken immediately before and after
  a rendering of an object that has not been rendered before (single
  renderings build a new object per rendering), so that a modification that a
  second rendering would not repeat is seen as well.  State the library keeps
  outside the symbolic fields (cached parents, the progress label, element
  ids derived from id(), caches inside pg.Html objects) is not part of it."""
  try:
    text = 'json:' + json.dumps(_no_opaque(pg.to_json(v)), sort_keys=True)
  except Exception:  # pylint: disable=broad-except
    # pg.Ref nodes and local classes have no JSON form: the same description
    # read from the symbolic fields.
    text = 'json:' + json.dumps(_describe(v), sort_keys=True)
  # pg.Html members are opaque to JSON; what they say publicly (their content
  # and the shared parts they carry) is data of the value: a rendering that
  # adds parts to an embedded fragment modifies the value.
  frags = _html_members(v)
  if frags:
    text += '\nhtml:' + json.dumps(frags, sort_keys=True)
  return text


def _html_members(v, out=None, seen=None):
  out = [] if out is None else out
  seen = set() if seen is None else seen
  if id(v) in seen:
    return out
  seen.add(id(v))
  if isinstance(v, pg.Html):
    try:
      out.append([v.content,
                  {k: sorted((str(x), n) for x, n in dict(p.parts).items())
                   for k, p in v.shared_parts.items()}])
    except Exception:  # pylint: disable=broad-except
      out.append(['<undescribable pg.Html>'])
  elif isinstance(v, pg.Symbolic):
    for _, x in v.sym_items():
      _html_members(x, out, seen)
  elif isinstance(v, (list, tuple)):
    for x in v:
      _html_members(x, out, seen)
  elif isinstance(v, dict):
    for x in v.values():
      _html_members(x, out, seen)
  return out


def _describe(v):
  if isinstance(v, pg.Symbolic):
    if isinstance(v, pg.List):
      return [_describe(x) for x in v.sym_values()]
    out = {str(k): _describe(x) for k, x in v.sym_items()}
    if not isinstance(v, pg.Dict):
      out['_type'] = f'{type(v).__module__}.{type(v).__qualname__}'
    return out
  if v is None or isinstance(v, (str, int, float, bool)):
    return v
  if isinstance(v, (list, tuple)):
    return [_describe(x) for x in v]
  if isinstance(v, dict):
    return {str(k): _describe(x) for k, x in v.items()}
  return {'_type': 'opaque', 'class': type(v).__name__}


_CONTROLS_MODULE = 'pyglove.core.views.html.controls.'
_MISSING = object()


def _changed_field(a, b, owner=None, field=None):
  """(class, field) of the innermost library control with a member that
  differs between the JSON values `a` and `b` (None, None: not in a control)."""
  if type(a) is not type(b):
    return owner, field
  if isinstance(a, dict):
    t = a.get('_type')
    if t != b.get('_type'):
      return owner, field
    ctl = isinstance(t, str) and t.startswith(_CONTROLS_MODULE)
    for k in sorted(set(a) | set(b)):
      x, y = a.get(k, _MISSING), b.get(k, _MISSING)
      if x != y:
        if ctl:
          return _changed_field(x, y, t.rsplit('.', 1)[-1], k)
        return _changed_field(x, y, owner, field)
  elif isinstance(a, list) and len(a) == len(b):
    for x, y in zip(a, b):
      if x != y:
        return _changed_field(x, y, owner, field)
  return owner, field


def changed_value(before, after, default):
  """None, or (mechanism, detail) of a value modified by its rendering: the
  field of the library control that changed, else `default`."""
  if before == after:
    return None
  mech = default
  if before.startswith('json:') and after.startswith('json:'):
    bj, _, bh = before[5:].partition('\nhtml:')
    aj, _, ah = after[5:].partition('\nhtml:')
    if bj == aj and bh != ah:
      mech = default + '/embedded-html'
    else:
      owner, field = _changed_field(json.loads(bj), json.loads(aj))
      if owner is not None:
        mech = f'render:{owner}.{field}'
  return mech, f'before: {before}\nafter:  {after}'


class Subject:
  """One thing to render under several hostility modes."""

  name = '?'
  presence_excludes = ('tooltip',)

  def __init__(self, ctx, S):
    self.ctx, self.S = ctx, S

  def kinds(self):
    raise NotImplementedError

  def render(self, mode, variant=None):
    """Returns (html text, expectations, value-changed?)."""
    raise NotImplementedError

  def mechanism(self, kind):
    return 'key-with-path-syntax' if kind == 'path-key' else kind

  def variants(self, kind):
    return []

  def blame_options(self, ctx):
    """Mechanism for a rendering that raises on the benign build."""
    return 'render:' + self.name

  def case(self):
    return {}


class LibraryRaised(Exception):
  """The library raised while rendering (wrapped so the case can classify it)."""

  def __init__(self, exc):
    super().__init__(repr(exc))
    self.exc = exc


def _lib_raised(e):
  frames = traceback.extract_tb(e.__traceback__)
  fn = frames[-1].filename if frames else ''
  return 'pyglove' in fn and '/pgverif/' not in fn


def evaluate(ctx, subj):
  """The whole oracle for one subject; False if a rendering raised."""
  c = ctx.counters
  S = subj.S
  kinds = sorted(subj.kinds())
  payloads = {f'slot{i}:{k}:{tid}': t for i, (k, tid, t) in enumerate(S.items)}
  case = dict(subj.case(), payloads=payloads)

  def parse(mode, variant=None):
    try:
      text, exp, changed = subj.render(frozenset(mode), variant)
    except Exception as e:  # pylint: disable=broad-except
      if _lib_raised(e):
        raise LibraryRaised(e) from e
      raise
    c['renders'] += 1
    r = HC.check(text)
    c['strict_parses'] += 1
    c['unchanged_value_checks'] += 1
    if changed:
      ctx.violation('value-modified', changed[0], changed[1], case)
    return text, r, exp

  def absent(r, exp):
    """Indices of expectations not met by the character data of `r`."""
    hay = r.text(exclude_classes=subj.presence_excludes)
    c['presence_tokens_checked'] += len(exp)
    return {j for j, (_, accepted) in enumerate(exp)
            if not any(a in hay for a in accepted)}

  def compare(rh, h_exp, rt, t_missing):
    """Returns (structural verdict, indices absent only in the hostile one)."""
    c['twin_comparisons'] += 1
    c['canary_checks'] += 1
    v = judge(rh, rt)
    els, ats = canary_parsed(rh)
    if (els or ats) and v is None:
      # Cannot happen (a canary is always an extra element/attribute); guard
      # against a monitor bug rather than hide it.
      raise AssertionError('canary parsed but skeletons equal')
    if v is not None:
      return v, set()
    c['hostile_renderings_structurally_clean'] += 1
    return None, absent(rh, h_exp) - t_missing

  def absent_detail(exp, idx, which):
    what, accepted = exp[min(idx)]
    return (f'{what} {accepted[-1]!r} is not in the character data of the '
            f'{which} rendering'
            + (' (outside tooltips)' if subj.presence_excludes else ''))

  # 1. benign twin: must render, strict rules, presence.
  try:
    t_text, rt, t_exp = parse(())
  except LibraryRaised as e:
    c['render_raised'] += 1
    ctx.violation('render-raises', subj.blame_options(ctx),
                  'benign build: ' + ''.join(
                      traceback.format_exception(e.exc))[-2500:], case)
    return False
  if rt.errors:
    ctx.violation('malformed', 'benign:' + subj.name, rt.describe() +
                  '\n' + t_text[:1500], case)
  t_missing = absent(rt, t_exp)
  for j in sorted(t_missing):
    ctx.violation('absent', t_exp[j][0] + '/benign',
                  absent_detail(t_exp, {j}, 'benign') + '\n' + t_text[:1500],
                  case)

  # 2. everything hostile.
  try:
    h_text, rh, h_exp = parse(kinds)
  except LibraryRaised as e:
    c['render_raised'] += 1
    blamed = []
    for k in kinds:
      try:
        parse([k])
      except LibraryRaised:
        blamed.append(k)
    for k in blamed or ['combination:' + subj.name]:
      ctx.violation('render-raises', subj.mechanism(k),
                    'hostile build only: ' + ''.join(
                        traceback.format_exception(e.exc))[-2500:], case)
    return False
  verdict, missing = compare(rh, h_exp, rt, t_missing)
  if verdict is None and not missing:
    return True

  # 3. attribute to payload kinds: one kind hostile at a time.  For a guilty
  # kind the clause is decided by two fixed probe payloads (so that it does not
  # depend on which random payload happened to sit there), per route variant.
  c['hostile_renderings_with_findings'] += 1
  guilty = []
  for k in kinds:
    k_text, rk, k_exp = parse([k])
    c['isolation_renders'] += 1
    vk, mk = compare(rk, k_exp, rt, t_missing)
    if vk is None and not mk:
      continue
    guilty.append(k)
    found = {}        # (clause, mechanism) -> (detail, text)
    has_slots = any(kk == k for kk, _, _ in S.items)
    if has_slots:
      for variant in (subj.variants(k) or [None]):
        mech = subj.mechanism(k) + (f'@{variant}' if variant else '')
        for probe in PROBES:
          S.probe = {k: probe}
          try:
            _, rpt, _ = parse((), variant)
            p_text, rph, _ = parse([k], variant)
          finally:
            S.probe = {}
          c['probe_renders'] += 2
          c['twin_comparisons'] += 1
          vp = judge(rph, rpt)
          if vp is not None:
            found.setdefault((vp[0], mech),
                             (vp[1] + f'\nprobe payload {probe!r}', p_text))
        if variant is not None and not any(m == mech for _, m in found):
          _, rvt, vt_exp = parse((), variant)
          v_text, rvh, vh_exp = parse([k], variant)
          vv, mv = compare(rvh, vh_exp, rvt, absent(rvt, vt_exp))
          if vv is not None:
            found[('structure-differs', mech)] = (vv[1], v_text)
          elif mv:
            found[('absent', mech)] = (absent_detail(vh_exp, mv, 'hostile'),
                                       v_text)
    if not found:
      if vk is not None:
        clause, detail = ('structure-differs' if has_slots
                          and not vk[0].startswith('script-') else vk[0]), vk[1]
      else:
        clause, detail = 'absent', absent_detail(k_exp, mk, 'hostile')
      found[(clause, subj.mechanism(k))] = (detail, k_text)
    for (clause, mech), (detail, txt) in found.items():
      ctx.violation(clause, mech, f'{detail}\nonly payload kind {k!r} hostile; '
                    f'hostile rendering:\n{txt[:1800]}', case)
  rest = [k for k in kinds if k not in guilty]
  if not guilty:
    detail = verdict[1] if verdict else absent_detail(h_exp, missing, 'hostile')
    ctx.violation(verdict[0] if verdict else 'absent',
                  'combination:' + subj.name,
                  f'{detail}\nno single payload kind reproduces it; kinds '
                  f'{kinds}; hostile rendering:\n{h_text[:1800]}', case)
    return True
  # 4. the remaining kinds together must be clean.
  r_text, rr, r_exp = parse(rest)
  vr, mr = compare(rr, r_exp, rt, t_missing)
  if vr is not None or mr:
    detail = vr[1] if vr else absent_detail(r_exp, mr, 'hostile')
    ctx.violation(vr[0] if vr else 'absent', 'combination:' + subj.name,
                  f'{detail}\nkinds {rest} are clean one at a time but not '
                  f'together; hostile rendering:\n{r_text[:1800]}', case)
  return True


class TreeSubject(Subject):
  name = 'tree-view'

  def __init__(self, ctx, S, desc, opts, class_kinds):
    super().__init__(ctx, S)
    self.desc, self.opts, self.class_kinds = desc, opts, class_kinds
    self._path_mech = None

  def kinds(self):
    return self.S.kinds() | self.class_kinds

  def variants(self, kind):
    # Keys take two routes through the tree view: summary name / label cell.
    return ['summary', 'label'] if kind == 'key' else []

  def mechanism(self, kind):
    """A key with path syntax that is also the name of a child in
    `child_config` (documented: "the key is the name of the child node"): the
    option is blamed if the rendering is clean without it."""
    if kind != 'path-key':
      return kind
    if self._path_mech is None:
      S, o = self.S, self.opts
      self._path_mech = 'key-with-path-syntax'
      if 'child_config' in o and any(
          t[0] == 'slot' and S.items[t[1]][0] == 'path-key'
          for t, _ in child_config_pairs(o['child_config'])):
        self.opts = {k: v for k, v in o.items() if k != 'child_config'}
        if 'scoped' in o:
          self.opts['scoped'] = [x for x in o['scoped'] if x != 'child_config']
        try:
          if self._clean(kind):
            self._path_mech = 'child_config@key-with-path-syntax'
        finally:
          self.opts = o
    return self._path_mech

  def _clean(self, kind):
    """No finding with only `kind` hostile, under the current options."""
    self.ctx.counters['option_minimisation_renders'] += 2
    try:
      t_text, t_exp, _ = self.render(frozenset())
      h_text, h_exp, _ = self.render(frozenset([kind]))
    except Exception as e:  # pylint: disable=broad-except
      if _lib_raised(e):
        return False
      raise
    rt, rh = HC.check(t_text), HC.check(h_text)
    if judge(rh, rt) is not None:
      return False

    def missing(r, exp):
      hay = r.text(exclude_classes=self.presence_excludes)
      return {j for j, (_, acc) in enumerate(exp)
              if not any(a in hay for a in acc)}
    return not missing(rh, h_exp) - missing(rt, t_exp)

  def case(self):
    return {'value': self.desc, 'options': self.opts}

  def blame_options(self, ctx):
    """Greedy minimisation of the options under which the benign build raises."""
    skip = ('entry', 'content_only', 'scoped')
    o = dict(self.opts)

    def raises(o2):
      saved, self.opts = self.opts, o2
      try:
        self.render(frozenset())
        return False
      except Exception as e:  # pylint: disable=broad-except
        if _lib_raised(e):
          return True
        raise
      finally:
        self.opts = saved

    for n in sorted(k for k in o if k not in skip):
      o2 = {k: v for k, v in o.items() if k != n}
      if 'scoped' in o2:
        o2['scoped'] = [x for x in o2['scoped'] if x != n]
      ctx.counters['option_minimisation_renders'] += 1
      if raises(o2):
        o = o2
    rest = [n + ('=fn' if isinstance(o[n], list) and o[n][:1] == ['fn'] else '')
            for n in sorted(o) if n not in skip]
    return 'options:' + '+'.join(rest) if rest else 'render:tree-view'

  def _filters(self, o):
    for k in ('include_keys', 'exclude_keys'):
      if k in o and o[k][0] in ('fn', 'failfn'):
        return None
    inc = o.get('include_keys')
    exc = o.get('exclude_keys')
    return (inc[1:] if inc else None, exc[1:] if exc else [])

  def render(self, mode, variant=None, value=None):
    S, o = self.S, self.opts
    if variant is not None:
      o = {k: v for k, v in o.items() if k != 'child_config'}
      o['key_style'] = variant
    if value is None:
      value = build(self.desc, S, mode)
    kw = build_opts(o, S, mode)
    before = snapshot(value)
    text = render_tree(self.ctx, value, o, kw)
    changed = changed_value(before, snapshot(value), 'render:' + self.name)
    exp = []
    f = self._filters(o)
    flags = (o.get('enable_summary'), o.get('enable_summary_for_str', True))
    if f is not None:
      inc, exc = f
      d = self.desc
      root_eff = dict(o.get('extra_flags', {}))
      cc = child_config_pairs(o['child_config']) if 'child_config' in o else []

      def shown(ref):
        return (inc is None or ref in inc) and ref not in exc

      def eff(ref):
        """The extra_flags in force below the root child `ref`: "the
        child-config ... override[s] the default configs for the child node"
        (that child, not its siblings)."""
        own = [j for j, (t, _) in enumerate(cc) if t == ref]
        own = own or [j for j, (t, _) in enumerate(cc)
                      if t == ['plain', '__default__']]
        e = dict(root_eff)
        for j in own[:1]:
          e.update(cc[j][1].get('extra_flags', {}))
        if any('extra_flags' in cfg for j, (_, cfg) in enumerate(cc)
               if j not in own[:1]):
          e['tag'] = '@child_config-sibling'
        return e

      if d[0] in ('D', 'PD', 'Dyn'):
        for k, v in d[1]:
          if shown(k):
            if key_shown(v, flags):
              exp.append(('key', [key_text(k, S, mode)]))
            expectations(v, S, mode, exp, flags, eff(k))
      elif d[0] in ('L', 'PL'):
        for j, v in enumerate(d[1]):
          if shown(['idx', j]):
            expectations(v, S, mode, exp, flags, eff(['idx', j]))
      elif d[0] == 'O':
        for nm, v in zip('xy', d[2:]):
          if shown(['plain', nm]):
            expectations(v, S, mode, exp, flags, eff(['plain', nm]))
      else:
        expectations(d, S, mode, exp, flags, root_eff)
      if ('name' in o and key_shown(d, flags)
          and not (o['entry'] == 'repr_html'
                   and isinstance(value, pg.Symbolic))):
        exp.append(('root-name', [key_text(o['name'], S, mode)]))
    return text, exp, changed


class ControlSubject(Subject):
  name = 'controls'
  presence_excludes = ()

  def __init__(self, ctx, S, desc, how, class_kinds):
    super().__init__(ctx, S)
    self.desc, self.how, self.class_kinds = desc, how, class_kinds

  def kinds(self):
    return self.S.kinds() | self.class_kinds

  def variants(self, kind):
    return ['summary', 'label'] if kind == 'key' else []

  def case(self):
    return {'control': self.desc, 'how': self.how}

  def blame_options(self, ctx):
    """Benign build raises: the innermost control that cannot be rendered on
    its own, and the constructor argument without which it can."""
    S = self.S

    def raises(d):
      ctx.counters['control_minimisation_renders'] += 1
      try:
        build_control(d, S, frozenset()).to_html_str()
        return False
      except Exception as e:  # pylint: disable=broad-except
        if _lib_raised(e):
          return True
        raise

    def inner(d):
      name, a = d
      if name == 'str':
        return None
      subs = list(a.get('labels', []))
      if name == 'LabelGroup' and a.get('name') is not None:
        subs.append(a['name'])
      # (The Tooltip object of a label gets its `for_element` from the label:
      # it cannot be rendered on its own.)
      for t in a.get('tabs', []):
        subs.append(t['label'])
        if t['content'][0] == 'control':
          subs.append(t['content'][1])
      for x in subs:
        r = inner(x)
        if r:
          return r
      if not raises(d):
        return None
      for arg in ('interactive', 'selected', 'tab_position', 'total', 'id',
                  'css_classes', 'styles', 'link', 'target', 'tooltip'):
        if arg in a and not raises([name, {k: v for k, v in a.items()
                                           if k != arg}]):
          return f'{name}.{arg}'
      return name

    return inner(self.desc) or 'render:' + self.name

  def render(self, mode, variant=None, ctrl=None):
    if ctrl is None:
      ctrl = build_control(self.desc, self.S, mode)
    how, co = self.how
    kw = {} if variant is None else {'key_style': variant}
    # A control as a node of a symbolic tree rendered by the tree view.
    holder, okw = ctrl, {}
    if how == 'member':
      holder = pg.Dict(a=ctrl, b=pg.List([1, ctrl.clone()]))
    elif how == 'in-list':
      holder = pg.List([ctrl, pg.Dict(x=ctrl.clone(deep=True))])
      okw = dict(collapse_level=None, enable_summary_tooltip=False)
    elif how == 'in-dict':
      holder = pg.Dict(title='report', body=pg.List([ctrl]))
      okw = dict(collapse_level=0)
      if variant is None:
        okw['key_style'] = 'label'
    before = snapshot(holder)
    self.ctx.label = 'render:controls/' + how
    try:
      # Controls ignore render arguments; a forced key_style reaches embedded
      # tree views (tab contents) through the scoped view options.
      with pg.view_options(**kw):
        if how == 'method':
          text = ctrl.to_html_str(content_only=co)
        elif how == 'fn':
          text = pg.to_html_str(ctrl, content_only=co)
        elif how == 'to_html':
          text = ctrl.to_html().to_str(content_only=co)
        else:
          text = pg.to_html_str(holder, content_only=co, **okw)
    finally:
      self.ctx.label = None
    changed = changed_value(before, snapshot(holder), 'render:' + self.name)
    exp = []
    control_expectations(self.desc, self.S, mode, exp)
    return text, exp, changed


class ApiSubject(Subject):
  """pg.Html.escape in text and attribute position of pg.Html.element."""
  name = 'api'

  def __init__(self, ctx, S, desc):
    super().__init__(ctx, S)
    self.desc = desc
    self.exact = None

  def kinds(self):
    return self.S.kinds()

  def variants(self, kind):
    return []

  def case(self):
    return {'api': self.desc}

  def _node(self, d, mode, texts, attrs):
    S = self.S
    t = d[0]
    if t == 'text':          # escaped str
      s = S.text(d[1], mode)
      texts.append(s)
      form = d[2]
      if form == 'str':
        return Html.escape(s)
      if form == 'callable':
        return Html.escape(lambda: s)
      if form == 'html':
        return Html.escape(Html(s))
      return Html.escape(lambda: Html(s))
    if t == 'raw':
      texts.append(d[2])
      return d[1]
    if t == 'none':
      return None
    tag, a, children = d[1], d[2], d[3]
    props = {}
    for name, ref in a.get('props', []):
      if ref[0] == 'slot':
        v = S.text(ref[1], mode)
        attrs.append((name.replace('_', '-'), v))
        props[name] = Html.escape(v)
      else:
        attrs.append((name.replace('_', '-'), ref[1]))
        props[name] = ref[1]
    inner = [self._node(x, mode, texts, attrs) for x in children]
    return Html.element(tag, inner, options=a.get('options'),
                        css_classes=a.get('css_classes'),
                        styles=a.get('styles'), **props)

  def render(self, mode, variant=None):
    texts, attrs = [], []
    self.ctx.label = 'render:api/Html.element+escape'
    try:
      h = self._node(self.desc, mode, texts, attrs)
      text = h.to_str(content_only=True)
    finally:
      self.ctx.label = None
    self.exact = (''.join(texts), attrs)
    return text, [], None


def gen_api(rng, S, depth=0):
  a = {}
  if rng.random() < 0.5:
    a['css_classes'] = rng.choice([['a'], ['a', 'b-c'], ['a', None, ['d']]])
  if rng.random() < 0.3:
    a['styles'] = rng.choice([{'color': 'red'}, 'margin:0;'])
  if rng.random() < 0.2:
    a['options'] = rng.choice(['open', ['open', 'hidden']])
  props = []
  for name in rng.sample(['title', 'data_x', 'href', 'alt', 'aria_label'],
                         rng.randint(0, 3)):
    if rng.random() < 0.8:
      props.append([name, ['slot', S.new(rng, 'Html.escape@attr')]])
    else:
      props.append([name, ['plain', 'v 1']])
  a['props'] = props
  children = []
  for _ in range(rng.randint(0, 3)):
    r = rng.random()
    if r < 0.5:
      children.append(['text', S.new(rng, 'Html.escape@text',
                                     pad=rng.choice([0, 0, 10])),
                       rng.choice(['str', 'str', 'callable', 'html',
                                   'callable-html'])])
    elif r < 0.6:
      children.append(['raw', '<b>x</b>&amp;<br>', 'x&'])
    elif r < 0.67:
      children.append(['none'])
    elif depth < 2:
      children.append(gen_api(rng, S, depth + 1))
  return ['el', rng.choice(['div', 'span', 'details', 'a', 'td', 'p']), a,
          children]


# ----------------------------------------------------------------------------
# Histories: control updates interleaved with renderings of the same texts.
#
# A history owns live objects (1-2 interactive controls, values built on first
# use, shared pg.Html objects) and 4-9 steps: render a live control, render a
# live value under a new option set, call one public update method of a
# control (under HtmlControl.track_scripts()), or call Html.escape directly in
# text / JavaScript-string mode.  New payload slots repeat the text of an
# earlier slot with probability 1/2, so one text passes through updates and
# renderings in both orders.  The history runs in two worlds, step by step:
# all payloads hostile / all payloads twin.  Per step the two results are
# compared: documents by the oracle of the single renderings; scripts by
# `monitors/jscheck.py` (same executed code, every literal equal to the twin's
# literal with the payloads substituted, HTML carried by a literal held to the
# document oracle).  A finding is re-checked on new objects built from the
# reference description with texts the process has never seen: if it persists
# it is attributed as a single rendering / by the update method, otherwise the
# mechanism is `history:<render|update>-after-<update|render|none>` (class of
# the failing step, class of the earlier steps that used one of its texts).
# ----------------------------------------------------------------------------

HISTORY_HOWS = ['method', 'fn', 'to_html']
HOSTILE_CLASS_KINDS = ('class-name', 'doc')
_SLOT_TAGS = ('slot', 's', 'r', 'text')
_CONTROL_ID = re.compile(r'control-\d+')
_UPDATE_DATA_ARGS = ('text', 'tooltip', 'link')


def slot_ids(x, out=None):
  """Slot numbers referred to anywhere in a description."""
  out = set() if out is None else out
  if isinstance(x, list):
    if (len(x) >= 2 and x[0] in _SLOT_TAGS and isinstance(x[1], int)
        and not isinstance(x[1], bool)):
      out.add(x[1])
      x = x[2:]
    for y in x:
      slot_ids(y, out)
  elif isinstance(x, dict):
    for v in x.values():
      slot_ids(v, out)
  return out


def force_interactive(d):
  """Makes every Label/Badge/Tooltip/LabelGroup of a description interactive
  (TabControl and ProgressBar always are); a non-interactive control refuses
  updates by contract."""
  name, a = d
  if name in ('Label', 'Badge', 'Tooltip', 'LabelGroup') or 'interactive' in a:
    a['interactive'] = True
  if name == 'LabelGroup' and a.get('name') is not None:
    force_interactive(a['name'])
  for x in a.get('labels', []):
    force_interactive(x)
  for t in a.get('tabs', []):
    force_interactive_tab(t)
  return d


def force_interactive_tab(t):
  if t['label'][0] != 'str':
    force_interactive(t['label'])
  if t['content'][0] == 'control':
    force_interactive(t['content'][1])
  return t


def control_targets(d, path, out):
  """(path, class) of every control with update methods inside `d`."""
  name, a = d
  if name in ('Label', 'Badge', 'Tooltip', 'TabControl', 'ProgressBar'):
    out.append((path, 'Label' if name == 'Badge' else name))
  if name == 'LabelGroup':
    if a.get('name') is not None:
      control_targets(a['name'], path + ['name'], out)
    for j, x in enumerate(a['labels']):
      control_targets(x, path + ['labels', j], out)
  elif name == 'TabControl':
    for j, t in enumerate(a['tabs']):
      if t['label'][0] != 'str':
        control_targets(t['label'], path + ['tabs', j, 'label'], out)
      if t['content'][0] == 'control':
        control_targets(t['content'][1], path + ['tabs', j, 'content'], out)
  elif name == 'ProgressBar':
    for j in range(len(a['subprogresses'])):
      out.append((path + ['subprogresses', j], 'SubProgress'))
  return out


def resolve_desc(d, path):
  i = 0
  while i < len(path):
    k = path[i]
    if k == 'name':
      d, i = d[1]['name'], i + 1
    elif k == 'labels':
      d, i = d[1]['labels'][path[i + 1]], i + 2
    elif k == 'tabs':
      t = d[1]['tabs'][path[i + 1]]
      d, i = (t['label'] if path[i + 2] == 'label' else t['content'][1]), i + 3
    elif k == 'subprogresses':
      d, i = d[1]['subprogresses'][path[i + 1]], i + 2
    else:
      raise ValueError(path)
  return d


def resolve_live(c, path):
  i = 0
  while i < len(path):
    k = path[i]
    if k == 'name':
      c, i = c.name, i + 1
    elif k == 'labels':
      c, i = c.labels[path[i + 1]], i + 2
    elif k == 'tabs':
      t = c.tabs[path[i + 1]]
      c, i = (t.label if path[i + 2] == 'label' else t.content), i + 3
    elif k == 'subprogresses':
      c, i = c.subprogresses[path[i + 1]], i + 2
    else:
      raise ValueError(path)
  return c


def tab_index(tabs, which):
  """`TabControl.indexof` on a description (-1: not found)."""
  if isinstance(which, list):
    for w in which:
      j = tab_index(tabs, w)
      if j != -1:
        return j
    return -1
  n = len(tabs)
  if isinstance(which, int):
    if which >= n:
      return n - 1
    if which < -n:
      return -1
    return which + n if which < 0 else which
  for j, t in enumerate(tabs):
    if t.get('name') == which:
      return j
  return -1


def gen_update(rng, S, descs):
  """One call of a public update method of one live control (or None)."""
  cands = []
  for ci, d in enumerate(descs):
    for path, cls in control_targets(d, [], []):
      cands.append((ci, path, cls))
  if not cands:
    return None
  ci, path, cls = rng.choice(cands)
  t = resolve_desc(descs[ci], path)
  if cls == 'Label' and rng.random() < 0.06:
    # Caller-supplied CSS (markup by contract): the style registry of a live
    # control grows between renderings.
    return ['update', ci, path, 'HtmlControl.add_style',
            {'css': rng.choice(['.n1 { color: red; }', '.zz > b { margin: 0; }'])}]
  if cls == 'Label':
    a = t[1]
    data = ['text'] + [f for f in ('tooltip', 'link')
                       if a.get(f) is not None]
    picked = ([rng.choice(data)] if rng.random() < 0.7
              else rng.sample(data, rng.randint(1, len(data))))
    args = {}
    for f in sorted(picked):
      if f == 'text':
        args[f] = _textref(rng, S, 'Label.text')
      elif f == 'tooltip':
        args[f] = _textref(rng, S, 'Tooltip.content')
      else:
        args[f] = (['slot', S.new(rng, 'Label.link')] if rng.random() < 0.7
                   else ['plain', 'https://example.com/b?x=1&y=2'])
    if rng.random() < 0.2:
      args['styles'] = rng.choice([{'color': 'blue'},
                                   {'font_weight': 'bold', 'width': '40%'}])
    if rng.random() < 0.2:
      args['add_class'] = ['n1']
    if rng.random() < 0.15:
      args['remove_class'] = [rng.choice(list(a.get('css_classes', []))
                                         + ['zz'])]
    return ['update', ci, path, 'Label.update', args]
  if cls == 'Tooltip':
    return ['update', ci, path, 'Tooltip.update',
            {'content': _textref(rng, S, 'Tooltip.content')}]
  if cls == 'TabControl':
    tabs = t[1]['tabs']
    n = len(tabs)
    named = any(x.get('name') == 'tabname' for x in tabs)

    def which(lists):
      if named and rng.random() < 0.35:
        return (['nope', 'tabname'] if lists and rng.random() < 0.5
                else 'tabname')
      return rng.randrange(-n, n + 2)

    def tab():
      return force_interactive_tab(gen_tab(rng, S, 1))

    op = rng.choice(['append', 'append', 'extend']
                    + (['insert', 'insert', 'select'] if n else []))
    if op == 'append':
      args = {'tab': tab()}
    elif op == 'extend':
      args = {'tabs': [tab() for _ in range(rng.randint(1, 2))]}
    elif op == 'insert':
      args = {'at': which(False), 'tab': tab()}
    else:
      args = {'which': which(True)}
    return ['update', ci, path, 'TabControl.' + op, args]
  if cls == 'ProgressBar':
    args = {}
    if t[1]['total'] is None and rng.random() < 0.7:
      args['total'] = rng.choice([10, 20])
    return ['update', ci, path, 'ProgressBar.update', args]
  # SubProgress: t = [name ref, value]
  siblings = resolve_desc(descs[ci], path[:-2])[1]['subprogresses']
  me = (t[0][0], S.textids[t[0][1]] if t[0][0] == 'slot' else t[0][1])
  same = [x for x in siblings
          if (x[0][0], S.textids[x[0][1]] if x[0][0] == 'slot' else x[0][1]) == me]
  args = {}
  if len(same) == 1 and rng.random() < 0.35:
    args['by_name'] = True          # looked up with ProgressBar.__getitem__
  if rng.random() < 0.5:
    args['value'] = rng.randint(0, 8)
    return ['update', ci, path, 'SubProgress.update', args]
  args['delta'] = rng.randint(1, 3)
  return ['update', ci, path, 'SubProgress.increment', args]


def apply_model(descs, step):
  """Applies an update step to the reference descriptions."""
  if step[0] != 'update':
    return
  _, ci, path, op, args = step
  args = copy.deepcopy(args)
  t = resolve_desc(descs[ci], path)
  if op == 'Label.update':
    a = t[1]
    for f in _UPDATE_DATA_ARGS:
      if f in args:
        a[f] = args[f]
    if 'styles' in args:
      a['styles'] = dict(a.get('styles', {}), **args['styles'])
    if 'add_class' in args or 'remove_class' in args:
      cl = list(a.get('css_classes', [])) + args.get('add_class', [])
      for x in args.get('remove_class', []):
        if x in cl:
          cl.remove(x)
      a['css_classes'] = cl
  elif op == 'Tooltip.update':
    t[1]['content'] = args['content']
  elif op == 'TabControl.append':
    t[1]['tabs'].append(args['tab'])
  elif op == 'TabControl.extend':
    t[1]['tabs'].extend(args['tabs'])
  elif op == 'TabControl.insert':
    t[1]['tabs'].insert(tab_index(t[1]['tabs'], args['at']), args['tab'])
  elif op == 'TabControl.select':
    t[1]['selected'] = tab_index(t[1]['tabs'], args['which'])
  elif op == 'ProgressBar.update':
    if 'total' in args:
      t[1]['total'] = args['total']
  elif op == 'SubProgress.update':
    t[1] = args['value']
  elif op == 'SubProgress.increment':
    t[1] += args['delta']
  elif op != 'HtmlControl.add_style':
    raise ValueError(op)


def gen_history(rng, S):
  """Returns (control descriptions, value records, steps), all JSON-able."""
  S.share_p = 0.5
  S.html_objs = {}
  S.config_hostile = False
  controls = [force_interactive(gen_control(rng, S))
              for _ in range(rng.randint(1, 2))]
  model = copy.deepcopy(controls)
  values, gens, steps = [], [], []
  # 45 % of the histories contain renderings that fail midway in user code.
  failing = rng.random() < 0.45
  again = None        # value whose rendering has just failed
  for ci in range(len(controls)):
    if rng.random() < 0.75:
      steps.append(['render-control', ci, rng.choice(HISTORY_HOWS),
                    rng.random() < 0.7])
  n = rng.randint(4, 9) + (2 if failing else 0)
  while len(steps) < n:
    r = rng.random()
    if again is not None and rng.random() < 0.8:
      r = 0.3         # the value of the failed rendering is rendered again
    elif failing and rng.random() < 0.22:
      r = 0.25
    if r < 0.2:
      steps.append(['render-control', rng.randrange(len(controls)),
                    rng.choice(HISTORY_HOWS), rng.random() < 0.7])
    elif r < 0.44:
      if again is not None:
        vi = again
      elif values and rng.random() < 0.4:
        vi = rng.randrange(len(values))
      else:
        g = Gen(rng, S)
        g.ext_bias = failing
        desc = g.value(0, [], plain_ok=True)
        values.append({'desc': desc, 'class_kinds': sorted(g.class_kinds)})
        gens.append(g)
        vi = len(values) - 1
      opts = gen_opts(rng, S, values[vi]['desc'], gens[vi])
      if failing and again is None and r < 0.3:
        steps.append(['render-value-failing', vi, opts,
                      gen_failure(rng, values[vi]['desc'], opts)])
        again = vi
      else:
        steps.append(['render-value', vi, opts])
        again = None
    elif r < 0.9:
      u = gen_update(rng, S, model)
      if u is not None:
        steps.append(u)
        apply_model(model, u)
    else:
      form = rng.choice(['text', 'js'])
      steps.append(['escape', S.new(rng, 'Html.escape@' + form,
                                    pad=rng.choice([0, 0, 10])), form,
                    rng.random() < 0.3])
  return controls, values, steps


def count_nodes(d, c):
  """Counts the nodes with a view of their own (evidence)."""
  if isinstance(d, list):
    if d and d[0] in ('R', 'E', 'X', 'C', 'PD', 'PL'):
      c['node:' + d[0] + (':' + d[1] if d[0] == 'E' else '')] += 1
      if d[0] == 'R' and d[1][0] in ('PD', 'PL'):
        c['node:R-to-plain-container'] += 1
    for x in d:
      count_nodes(x, c)


def _has_node(d, pred):
  if isinstance(d, list):
    return pred(d) or any(_has_node(x, pred) for x in d)
  return False


def gen_failure(rng, desc, opts):
  """Which user-side code of a rendering has a bug, and at which call (the
  rendering is an ordinary one if that call is never made).  Changes `opts`
  for a failing option callable."""
  hows = ['opt', 'opt']
  if _has_node(desc, lambda d: d[:1] == ['r']):
    hows.append('repr')
  if _has_node(desc, lambda d: d[:1] == ['E']):
    hows += ['ext-content', 'ext-content']
  if _has_node(desc, lambda d: d[:2] == ['E', 'box']):
    hows.append('ext-summary')
  how = rng.choice(hows)
  n = rng.choice([1, 1, 2, 2, 3, 4, 6, 9])
  if how != 'opt':
    return [how, n]
  name, fn = rng.choice(FAILABLE_OPTS)
  opts[name] = ['failfn', fn, n]
  if 'scoped' in opts and rng.random() < 0.5 and name not in opts['scoped']:
    opts['scoped'] = sorted(opts['scoped'] + [name])
  return ['opt', name, n]


class World:
  """The live objects of a history with the payload kinds in `mode` hostile."""

  def __init__(self, ctx, S, mode, descs):
    self.S, self.mode = S, mode
    ctx.label = 'history:build-control'
    self.controls = [build_control(d, S, mode) for d in descs]
    ctx.label = None
    self.values = {}


def exec_step(ctx, w, step, descs, values, args_S=None):
  """Runs `step` in world `w`.  Returns (document, expectations, changed) for a
  rendering, a list of scripts for an update, (output, text) for an escape.
  `args_S`: slots that give the texts of the arguments of an update (default:
  those of the world)."""
  S, mode = w.S, w.mode
  SA = args_S or S
  kind = step[0]
  try:
    if kind == 'render-control':
      _, ci, how, co = step
      subj = ControlSubject(ctx, S, descs[ci], (how, co), ())
      return subj.render(mode, ctrl=w.controls[ci])
    if kind == 'render-value':
      _, vi, opts = step
      ctx.label = 'history:build-value'
      if vi not in w.values:
        w.values[vi] = build(values[vi]['desc'], S, mode)
      subj = TreeSubject(ctx, S, values[vi]['desc'], opts, ())
      return subj.render(mode, value=w.values[vi])
    if kind == 'render-value-failing':
      _, vi, opts, how = step
      ctx.label = 'history:build-value'
      if vi not in w.values:
        w.values[vi] = build(values[vi]['desc'], S, mode)
      subj = TreeSubject(ctx, S, values[vi]['desc'], opts, ())
      ARM.update(where=None if how[0] == 'opt' else how[0], n=how[-1],
                 fired=False)
      try:
        text, exp, changed = subj.render(mode, value=w.values[vi])
      except Exception as e:  # pylint: disable=broad-except
        if not ARM['fired']:
          raise
        # The error of the user code (as it is, or wrapped by the library).
        return ('raised', type(e).__name__)
      finally:
        ARM.update(where=None)
        ctx.label = None
      # The failing call was never made (an ordinary rendering), or the
      # library went on without the failed part (no presence claim then).
      return text, ([] if ARM['fired'] else exp), changed
    if kind == 'escape':
      _, slot, form, as_callable = step
      t = S.text(slot, mode)
      ctx.label = 'history:Html.escape/' + form
      arg = (lambda: t) if as_callable else t
      if form == 'js':
        return Html.escape(arg, javascript_str=True), t
      return Html.escape(arg), t
    _, ci, path, op, args = step
    ctx.label = 'history:' + op
    target = resolve_live(w.controls[ci], path)
    with C.HtmlControl.track_scripts() as scripts:
      if op == 'Label.update':
        kw = {f: _textval(args[f], SA, mode) for f in _UPDATE_DATA_ARGS
              if f in args}
        for f in ('styles', 'add_class', 'remove_class'):
          if f in args:
            kw[f] = copy.deepcopy(args[f])
        target.update(**kw)
      elif op == 'Tooltip.update':
        target.update(_textval(args['content'], SA, mode))
      elif op == 'TabControl.append':
        target.append(build_tab(args['tab'], SA, mode))
      elif op == 'TabControl.extend':
        target.extend([build_tab(t, SA, mode) for t in args['tabs']])
      elif op == 'TabControl.insert':
        target.insert(args['at'], build_tab(args['tab'], SA, mode))
      elif op == 'TabControl.select':
        target.select(copy.deepcopy(args['which']))
      elif op == 'HtmlControl.add_style':
        target.add_style(args['css'])
      elif op == 'ProgressBar.update':
        target.update(**{k: args[k] for k in ('total',) if k in args})
      elif op in ('SubProgress.update', 'SubProgress.increment'):
        if args.get('by_name'):
          bar = resolve_live(w.controls[ci], path[:-2])
          name = resolve_desc(descs[ci], path)[0]
          target = bar[_textval(name, S, mode)]
        if op == 'SubProgress.update':
          target.update(args['value'])
        else:
          target.increment(args['delta'])
      else:
        raise ValueError(op)
    return list(scripts)
  finally:
    ctx.label = None


def html_findings(ctx, t_out, h_out, excludes):
  """The oracle of one rendering: [(clause, detail)]."""
  c = ctx.counters
  (t_text, t_exp, t_changed), (h_text, h_exp, h_changed) = t_out, h_out
  out = []
  rt, rh = HC.check(t_text), HC.check(h_text)
  c['strict_parses'] += 2
  c['unchanged_value_checks'] += 2
  if t_changed or h_changed:
    out.append(('value-modified', (t_changed or h_changed)[1]))
  if rt.errors:
    out.append(('malformed', rt.describe() + '\n' + t_text[:1200]))
  def absent(r, exp):
    hay = r.text(exclude_classes=excludes)
    c['presence_tokens_checked'] += len(exp)
    return {j for j, (_, accepted) in enumerate(exp)
            if not any(a in hay for a in accepted)}

  c['twin_comparisons'] += 1
  c['canary_checks'] += 1
  v = judge(rh, rt)
  if v is not None:
    out.append((v[0], v[1] + '\nhostile rendering:\n' + h_text[:1500]))
    mt = absent(rt, t_exp)
    if mt:
      what, accepted = t_exp[min(mt)]
      out.append(('absent', f'{what} {accepted[-1]!r} is not in the character '
                  f'data of the benign rendering\n{t_text[:1500]}'))
    return out
  c['hostile_renderings_structurally_clean'] += 1
  mt = absent(rt, t_exp)
  mh = absent(rh, h_exp) - mt
  for exp, miss, which, text in ((t_exp, mt, 'benign', t_text),
                                 (h_exp, mh, 'hostile', h_text)):
    if miss:
      what, accepted = exp[min(miss)]
      out.append(('absent', f'{what} {accepted[-1]!r} is not in the character '
                  f'data of the {which} rendering\n{text[:1500]}'))
      break
  return out


def _pairs(slots, hostile):
  """(twin text, hostile text) of every slot, longest first."""
  ps = {(S.text(i, frozenset()), S.text(i, hostile))
        for S in slots for i in range(len(S.items))}
  return sorted(ps, key=lambda p: (-len(p[0]), p))


def _substituted(s, pairs):
  for tw, ho in pairs:
    s = s.replace(tw, ho)
  return s


def script_findings(ctx, S, hostile, step, t_scripts, h_scripts, args_S=None):
  """The oracle of the scripts of one update call: [(clause, detail)]."""
  SA = args_S or S
  c = ctx.counters
  out = []
  if len(t_scripts) != len(h_scripts):
    return [('script-breakout', f'{len(h_scripts)} scripts with hostile texts, '
             f'{len(t_scripts)} with benign texts')]
  pairs = _pairs([S, SA] if SA is not S else [S], hostile)
  args = step[4]
  tabs = ([args['tab']] if 'tab' in args else list(args.get('tabs', [])))
  exps = []
  for mode in (frozenset(), hostile):
    e = []
    if tabs:
      control_expectations(['TabControl', {'tabs': tabs}], SA, mode, e)
    exps.append(e)
  t_frag, h_frag = [], []
  skipped = False
  for ts, hs in zip(t_scripts, h_scripts):
    st, sh = JS.scan(ts), JS.scan(hs)
    c['update_scripts_checked'] += 1
    if st.errors:
      out.append(('script-malformed', st.describe() + '\n' + ts[:800]))
      skipped = True
      continue
    if sh.errors or sh.skeleton != st.skeleton:
      out.append(('script-breakout',
                  (sh.describe() or 'the code outside the string literals '
                   f'differs: {sh.skeleton!r} vs benign {st.skeleton!r}')
                  + '\nscript:\n' + hs[:1200]))
      skipped = True
      continue
    for lt, lh in zip(st.literals, sh.literals):
      c['script_literals_checked'] += 1
      if lt.role == 'html':
        c['script_html_fragments_checked'] += 1
        t_frag.append(lt.value)
        h_frag.append(lh.value)
        continue
      want = _substituted(_CONTROL_ID.sub('control-N', lt.value), pairs)
      got = _CONTROL_ID.sub('control-N', lh.value)
      if got != want:
        out.append(('script-text-differs',
                    f'the {lt.role} literal stands for {got!r}, expected '
                    f'{want!r}\nscript:\n{hs[:1200]}'))
  if skipped:
    exps = [[], []]    # no presence claim on an incomplete set of fragments
  if t_frag:
    # The HTML a script inserts is a rendering like any other.
    out.extend(html_findings(ctx, ('\n'.join(t_frag), exps[0], None),
                             ('\n'.join(h_frag), exps[1], None), ()))
  seen, uniq = set(), []
  for clause, detail in out:
    if clause not in seen:
      seen.add(clause)
      uniq.append((clause, detail))
  return uniq


def escape_findings(ctx, step, t_out, h_out):
  c = ctx.counters
  form = step[2]
  (t_res, t_text), (h_res, h_text) = t_out, h_out
  c['direct_escape_checks'] += 1
  if form == 'text':
    wrap = lambda r, t: (f'<span>{r}</span>', [('Html.escape@text', [t])], None)
    out = html_findings(ctx, wrap(t_res, t_text), wrap(h_res, h_text), ())
    if not out and HC.check(f'<span>{h_res}</span>').text() != h_text:
      out.append(('absent', f'Html.escape({h_text!r}) = {h_res!r} does not '
                  'stand for the text'))
    return out
  st, sh = JS.scan(f'x = "{t_res}";'), JS.scan(f'x = "{h_res}";')
  if st.errors:
    return [('script-malformed', st.describe())]
  if sh.errors or sh.skeleton != st.skeleton:
    return [('script-breakout', f'Html.escape({h_text!r}, javascript_str=True)'
             f' = {h_res!r} does not stay inside a string literal')]
  if sh.literals[0].value != h_text:
    return [('script-text-differs', f'Html.escape({h_text!r}, javascript_str='
             f'True) = {h_res!r} stands for {sh.literals[0].value!r}')]
  return []


def step_findings(ctx, S, hostile, step, t_out, h_out, args_S=None):
  if step[0] == 'render-control':
    return html_findings(ctx, t_out, h_out, ())
  if step[0] == 'render-value-failing':
    raised = [o[0] == 'raised' for o in (t_out, h_out)]
    ctx.counters['failing_renderings_raised'] += all(raised)
    ctx.counters['failing_renderings_completed'] += not any(raised)
    # Whether the buggy call is reached is a matter of the user code alone.
    ctx.counters['failing_renderings_diverged'] += raised[0] != raised[1]
    if any(raised):
      return []
    return html_findings(ctx, t_out, h_out, ('tooltip',))
  if step[0] == 'render-value':
    return html_findings(ctx, t_out, h_out, ('tooltip',))
  if step[0] == 'escape':
    return escape_findings(ctx, step, t_out, h_out)
  return script_findings(ctx, S, hostile, step, t_out, h_out, args_S)


def fresh_findings(ctx, S2, hostile, step, descs, values):
  """The same step on new objects built from the reference descriptions, with
  the texts of `S2` (never used in this process).  An update needs a control
  that has been rendered: its arguments take their texts from a second fresh
  set, so that the rendering and the update have no text in common."""
  outs = []
  SA = S2.refreshed(S2.prefix + 'a') if step[0] == 'update' else None
  for mode in (frozenset(), hostile):
    if step[0] == 'update':
      w = World(ctx, S2, mode, [descs[step[1]]])
      ctx.label = 'history:render-control'
      w.controls[0].to_html()
      ctx.label = None
      st = ['update', 0] + step[2:]
      outs.append(exec_step(ctx, w, st, [descs[step[1]]], values, SA))
    elif step[0] == 'render-control':
      w = World(ctx, S2, mode, [descs[step[1]]])
      outs.append(exec_step(ctx, w, [step[0], 0] + step[2:],
                            [descs[step[1]]], values))
    else:
      w = World(ctx, S2, mode, [])
      outs.append(exec_step(ctx, w, step, descs, values))
  ctx.counters['history_rechecks'] += 1
  return step_findings(ctx, S2, hostile, step, outs[0], outs[1], SA)


def violation_count(ctx):
  return sum(v['count'] for v in ctx.violations.values())


def run_history(ctx):
  rng, c = ctx.rng, ctx.counters
  S = Slots(prefix=f'h{ctx.index}')
  controls, values, steps = gen_history(rng, S)
  hostile = frozenset(S.kinds() | set(HOSTILE_CLASS_KINDS))
  case = {'controls': controls, 'values': values, 'steps': steps,
          'payloads': {f'slot{i}:{k}:{tid}': t
                       for i, (k, tid, t) in enumerate(S.items)}}
  for k, tid, _ in S.items:
    c['slots:' + k] += 1
    c['template:' + tid] += 1
  count_nodes([v['desc'] for v in values], c)
  cur = copy.deepcopy(controls)
  worlds = [World(ctx, S, frozenset(), cur), World(ctx, S, hostile, cur)]
  used = []            # per executed step: (class, text ids)
  nfresh = itertools.count()
  scripts_before = c['update_scripts_checked']
  renders = shared = 0
  failed_values = set()     # live values with a rendering that raised
  for j, step in enumerate(steps):
    kind = step[0]
    pre = copy.deepcopy(cur)
    outs = [exec_step(ctx, w, step, cur, values) for w in worlds]
    apply_model(cur, step)
    c['history_steps'] += 1
    c['step:' + (step[3] if kind == 'update' else kind)] += 1
    finds = step_findings(ctx, S, hostile, step, outs[0], outs[1])
    cls = ('update' if kind == 'update' or (kind == 'escape' and step[2] == 'js')
           else 'render')
    if kind == 'render-control':
      ids = slot_ids(cur[step[1]])
      renders += 1
    elif kind in ('render-value', 'render-value-failing'):
      ids = slot_ids(values[step[1]]) | slot_ids(step[2])
      if 'raised' in (outs[0][0], outs[1][0]):
        failed_values.add(step[1])
      else:
        renders += 1
        c['renderings_after_failed_rendering'] += step[1] in failed_values
    elif kind == 'escape':
      ids = {step[1]}
    else:
      ids = slot_ids(step[4])
      if step[3].startswith(('ProgressBar', 'SubProgress')):
        ids |= slot_ids(resolve_desc(cur[step[1]],
                                     step[2] if step[3].startswith('Progress')
                                     else step[2][:-2]))
      c['update_calls'] += 1
      c['update_calls_with_scripts'] += bool(outs[1])
    tids = {S.textids[i] for i in ids}
    before = {k for k, t in used if t & tids}
    # Class of the earlier steps that used one of the texts of this step: the
    # other class first (the text changed its kind of position).
    other = 'render' if cls == 'update' else 'update'
    prior = other if other in before else cls if cls in before else 'none'
    if prior != 'none':
      c[f'{cls}_after_{prior}_shared_text'] += 1
      shared += cls != prior
    used.append((cls, tids))
    if kind.startswith('render-value') and step[1] in failed_values:
      # An earlier rendering of this very object failed midway.
      prior = 'failed-render'
    if not finds:
      continue
    c['history_steps_with_findings'] += 1
    trail = f'\nstep #{j} {step!r} after {steps[:j]!r}'[:1500]
    S2 = S.refreshed(f'h{ctx.index}f{next(nfresh)}')
    again = {cl for cl, _ in fresh_findings(ctx, S2, hostile, step, pre, values)}
    stateless = [(cl, d) for cl, d in finds if cl in again]
    for clause, detail in finds:
      if clause not in again:
        ctx.violation(clause, f'history:{cls}-after-{prior}',
                      detail + '\nnot reproduced on new objects with texts '
                      'the process has not seen before' + trail, case)
    if not stateless:
      continue
    # Not a matter of history: attribute like a single rendering / by method.
    if kind in ('render-control', 'render-value', 'render-value-failing'):
      S3 = S.refreshed(f'h{ctx.index}f{next(nfresh)}')
      n0 = violation_count(ctx)
      if kind == 'render-control':
        d = pre[step[1]]
        subj = ControlSubject(ctx, S3, d, (step[2], step[3]),
                              control_class_kinds(d, set()))
      else:
        v = values[step[1]]
        o3 = {k: (['fn', x[1]] if isinstance(x, list) and x[:1] == ['failfn']
                  else x) for k, x in step[2].items()}
        subj = TreeSubject(ctx, S3, v['desc'], o3, set(v['class_kinds']))
      evaluate(ctx, subj)
      if violation_count(ctx) == n0:
        for clause, detail in stateless:
          ctx.violation(clause, f'render:{subj.name}/in-history',
                        detail + trail, case)
    elif kind == 'escape':
      for clause, detail in stateless:
        ctx.violation(clause, 'Html.escape@' + step[2], detail + trail, case)
    else:
      op, args = step[3], step[4]
      data = [f for f in _UPDATE_DATA_ARGS if f in args]
      tabs = [args['tab']] if 'tab' in args else list(args.get('tabs', []))
      if tabs and any(not cl.startswith('script-') for cl, _ in stateless):
        # The HTML of a new tab: the same positions as in a rendered control.
        S3 = S.refreshed(f'h{ctx.index}f{next(nfresh)}')
        n0 = violation_count(ctx)
        d = ['TabControl', {'tabs': tabs}]
        evaluate(ctx, ControlSubject(ctx, S3, d, ('method', True),
                                     control_class_kinds(d, set())))
        if violation_count(ctx) != n0:
          stateless = [x for x in stateless if x[0].startswith('script-')]
      for clause, detail in stateless:
        guilty = []
        if op == 'Label.update' and len(data) > 1:
          for f in data:
            one = step[:4] + [{k: v for k, v in args.items()
                               if k == f or k not in data}]
            S4 = S.refreshed(f'h{ctx.index}f{next(nfresh)}')
            if clause in {cl for cl, _ in fresh_findings(
                ctx, S4, hostile, one, pre, values)}:
              guilty.append(f)
        mech = (f'{op}({"+".join(guilty or data)})' if op == 'Label.update'
                else 'SubProgress.update' if op.startswith('SubProgress')
                else op)
        ctx.violation(clause, mech, detail + trail, case)
  c['history_renderings_compared'] += renders
  scripts = c['update_scripts_checked'] - scripts_before
  if scripts and renders >= 2 and shared:
    ctx.mark_nontrivial(shape([controls, values, steps], S))
  ctx.seen('descriptions', shape([controls, [s[:4] for s in steps]], S))
  ctx.seen('payload_kind_sets', sorted(S.kinds()))
  ctx.seen('history_step_sequences',
           [s[3] if s[0] == 'update' else s[0] for s in steps])
  return case, S


# ----------------------------------------------------------------------------
# Cases.
# ----------------------------------------------------------------------------

def cases(ctx):
  return ctx.params['cases']


def run_case(ctx, i):
  rng = ctx.rng
  c = ctx.counters
  S = Slots()
  r = rng.random()
  if r >= 0.86:
    c['history_cases'] += 1
    case, S = run_history(ctx)
    if i < 4:
      ctx.sample({'subject': 'history', 'case': case})
    return
  if r < 0.52:
    c['tree_cases'] += 1
    g = Gen(rng, S)
    desc = g.value(0, [], plain_ok=True)
    opts = gen_opts(rng, S, desc, g)
    subj = TreeSubject(ctx, S, desc, opts, set(g.class_kinds))
    fp_extra = shape(opts, S)
    count_nodes(desc, c)
    c['entry:' + opts['entry']] += 1
    for k in opts:
      c['opt:' + k] += 1
    nopts = len([k for k in opts if k not in ('entry', 'content_only')])
  elif r < 0.76:
    c['control_cases'] += 1
    desc = gen_control(rng, S)
    how = (rng.choice(['method', 'fn', 'to_html', 'member', 'method', 'fn',
                       'to_html', 'member', 'in-list', 'in-dict']),
           rng.random() < 0.7)
    subj = ControlSubject(ctx, S, desc, how, control_class_kinds(desc, set()))
    fp_extra = how
    c['control:' + desc[0]] += 1
    nopts = 1
  else:
    c['api_cases'] += 1
    desc = gen_api(rng, S)
    subj = ApiSubject(ctx, S, desc)
    fp_extra = ()
    nopts = 1
  for k, tid, _ in S.items:
    c['slots:' + k] += 1
    c['template:' + tid] += 1

  evaluated = evaluate(ctx, subj)

  if isinstance(subj, ApiSubject):
    # Exact round trip: escaped text and attribute values come back verbatim.
    for mode in (frozenset(), frozenset(subj.kinds())):
      text, _, _ = subj.render(mode)
      rep = HC.check(text)
      want_text, want_attrs = subj.exact
      c['api_roundtrip_checks'] += 1
      if rep.errors:
        continue     # already reported by evaluate()
      if rep.text() != want_text:
        ctx.violation('absent', 'Html.escape@text',
                      f'character data {rep.text()!r} != written text '
                      f'{want_text!r}\n{text[:1500]}', subj.case())
      got = [(n, v) for _, n, v in rep.attrs if n not in ('class', 'style')
             and v is not None]
      # Who escapes an attribute value (the caller with Html.escape, as here,
      # or Html.element itself) is not fixed by the property: a value that
      # comes back escaped exactly once more is accepted.
      twice = [(n, html.escape(v)) for n, v in want_attrs]
      if sorted(got) not in (sorted(want_attrs), sorted(twice)):
        ctx.violation('absent', 'Html.escape@attr',
                      f'attribute values {sorted(got)!r} != written '
                      f'{sorted(want_attrs)!r}\n{text[:1500]}', subj.case())

  kinds_used = S.kinds()
  if evaluated and len(S.items) >= 3 and len(kinds_used) >= 2:
    ctx.mark_nontrivial((shape(desc, S), fp_extra))
  ctx.seen('descriptions', shape(desc, S))
  ctx.seen('payload_kind_sets', sorted(kinds_used | subj.kinds()))
  c['cases_with_nondefault_options>=2'] += nopts >= 2
  if i < 2:
    ctx.sample({'subject': subj.name, 'case': subj.case(),
                'payloads': [list(x) for x in S.items][:8]})
