"""Runner: tiers, seeds, sharding over subprocesses, watchdogs, verdict, evidence.

  python -m pgverif.run C07 --tier quick|thorough [--seed N] [--replay FILE]

Exit codes: 0 held (apart from listed known findings), 1 violation (a line
`VIOLATION property=<id> replay=<path>` per unlisted mechanism), 2 inconclusive.
"""
import argparse
import collections
import concurrent.futures
import hashlib
import importlib
import json
import os
import random
import signal
import subprocess
import sys
import tempfile
import time
import traceback

ROOT = os.path.dirname(os.path.dirname(os.path.abspath(__file__)))
REPO = os.environ.get('PGVERIF_REPO', '/repo')
# Always execute the working tree of the repository under test.
if REPO not in sys.path[:1]:
  sys.path.insert(0, REPO)
if ROOT not in sys.path:
  sys.path.insert(1, ROOT)

from pgverif import findings  # pylint: disable=g-import-not-at-top

MAX_FP = 300000          # fingerprints kept per set and shard
MAX_SAMPLES = 4          # samples kept per shard


def fp(obj):
  """Stable 60-bit fingerprint of a printable object."""
  h = hashlib.blake2b(repr(obj).encode('utf-8', 'replace'), digest_size=8)
  return int.from_bytes(h.digest(), 'big') >> 4


class HarnessError(Exception):
  """A failure inside the harness itself (=> inconclusive, never violation)."""


class CaseTimeout(BaseException):
  """Per-case wall-clock watchdog fired (=> inconclusive, never violation)."""


def _on_alarm(signum, frame):
  raise CaseTimeout()


class Ctx:
  """Per-shard context handed to the property modules."""

  def __init__(self, prop, tier, seed, shard, nshards, params, replaying=False):
    self.prop, self.tier, self.seed = prop, tier, seed
    self.shard, self.nshards, self.params = shard, nshards, params
    self.replaying = replaying
    self.counters = collections.Counter()
    self.distinct = collections.defaultdict(set)
    self.nontrivial = set()
    self.samples = []
    self.violations = {}
    self.known = findings.known_keys(prop)
    self.index = -1
    self.rng = None
    self.label = None
    self.evaluations = 0
    self.notes = {}

  # -- case management -----------------------------------------------------
  def case_rng(self, index, salt=''):
    return random.Random(f'{self.prop}/{self.seed}/{self.shard}/{index}/{salt}')

  def begin_case(self, index):
    self.index = index
    self.rng = self.case_rng(index)
    self.label = None
    self.evaluations += 1

  # -- counters --------------------------------------------------------------
  def count(self, name, n=1):
    self.counters[name] += n

  def seen(self, name, obj):
    s = self.distinct[name]
    if len(s) < MAX_FP:
      s.add(fp(obj))

  def mark_nontrivial(self, fingerprint):
    if len(self.nontrivial) < MAX_FP:
      self.nontrivial.add(fp(fingerprint))

  def sample(self, obj):
    if len(self.samples) < MAX_SAMPLES:
      self.samples.append(to_jsonable(obj))

  # -- violations ------------------------------------------------------------
  def is_known(self, clause, mechanism):
    return f'{clause}:{mechanism}' in self.known

  def violation(self, clause, mechanism, detail, case=None):
    """Records a violation; returns True when it is a listed known finding."""
    key = f'{clause}:{mechanism}'
    rec = self.violations.get(key)
    if rec is None:
      rec = self.violations[key] = {
          'key': key, 'count': 0,
          'first': {
              'property': self.prop, 'key': key, 'tier': self.tier,
              'seed': self.seed, 'shard': self.shard, 'nshards': self.nshards,
              'index': self.index, 'params': self.params,
              'detail': trunc(detail, 4000),
              'case': to_jsonable(case),
          }}
    rec['count'] += 1
    return key in self.known

  def result(self):
    return {
        'shard': self.shard,
        'evaluations': self.evaluations,
        'counters': dict(self.counters),
        'distinct': {k: sorted(v) for k, v in self.distinct.items()},
        'nontrivial': sorted(self.nontrivial),
        'samples': self.samples,
        'violations': self.violations,
        'notes': self.notes,
    }


def trunc(s, n):
  s = s if isinstance(s, str) else repr(s)
  return s if len(s) <= n else s[:n] + '…'


def to_jsonable(o, depth=0):
  if depth > 12:
    return trunc(repr(o), 200)
  if o is None or isinstance(o, (bool, int, str)):
    return o if not isinstance(o, str) else trunc(o, 2000)
  if isinstance(o, float):
    return o if o == o and abs(o) != float('inf') else repr(o)
  if isinstance(o, dict):
    return {str(k) if not isinstance(k, str) else k: to_jsonable(v, depth + 1)
            for k, v in o.items()}
  if isinstance(o, (list, tuple, set, frozenset)):
    return [to_jsonable(v, depth + 1) for v in o]
  return trunc(repr(o), 500)


def load_module(prop):
  return importlib.import_module(f'pgverif.props.{prop.lower()}')


def lib_frame_innermost(tb):
  """True if the innermost traceback frame is library (not harness) code."""
  frames = traceback.extract_tb(tb)
  if not frames:
    return False
  fn = frames[-1].filename
  return '/pgverif/' not in fn and ('pyglove' in fn)


def caused_by_timeout(e):
  seen = 0
  while e is not None and seen < 50:
    if isinstance(e, CaseTimeout):
      return True
    e = e.__cause__ or e.__context__
    seen += 1
  return False


def run_shard(prop, tier, seed, shard, nshards, params, only_index=None):
  mod = load_module(prop)
  ctx = Ctx(prop, tier, seed, shard, nshards, params,
            replaying=only_index is not None)
  crash = None
  t0 = time.time()
  try:
    if hasattr(mod, 'setup'):
      mod.setup(ctx)
    n = mod.cases(ctx)
    # Shards partition the case index space: shard s runs i*nshards + s.
    indices = [only_index] if only_index is not None else range(n)
    case_timeout = int(params.get('case_timeout_s', 120 if tier == 'quick' else 900))
    signal.signal(signal.SIGALRM, _on_alarm)
    timeouts = []
    for i in indices:
      ctx.begin_case(i)
      try:
        signal.alarm(case_timeout)
        try:
          mod.run_case(ctx, i)
        finally:
          signal.alarm(0)
      except CaseTimeout:
        # The alarm raises asynchronously, possibly in the middle of a library
        # scope (between a push and its pop): the state of this process is not
        # trustworthy any more, the shard ends here (inconclusive).
        ctx.counters['case_timeouts'] += 1
        raise HarnessError(f'case {i} exceeded the {case_timeout}s per-case '
                           'watchdog; shard abandoned')
      except HarnessError:
        raise
      except Exception as e:  # pylint: disable=broad-except
        if caused_by_timeout(e):
          # The asynchronous CaseTimeout was replaced by an exception raised
          # while the library unwound (e.g. a `finally` popping a scope that
          # had not been pushed yet).
          ctx.counters['case_timeouts'] += 1
          raise HarnessError(f'case {i} exceeded the {case_timeout}s per-case '
                             'watchdog (seen through a secondary exception); '
                             'shard abandoned') from e
        if lib_frame_innermost(e.__traceback__):
          # The library raised where the harness expected no exception at
          # all (every expected exception is caught at the step).
          ctx.violation('unexpected-exception', str(ctx.label or 'unlabelled-call'),
                        ''.join(traceback.format_exception(e))[-3000:],
                        {'label': ctx.label})
        else:
          raise
    if hasattr(mod, 'teardown'):
      mod.teardown(ctx)
  except BaseException as e:  # pylint: disable=broad-except
    crash = ''.join(traceback.format_exception(e))[-6000:]
  res = ctx.result()
  res['crash'] = crash
  res['wall_s'] = time.time() - t0
  return res


def shard_params(mod, tier):
  params = dict(mod.TIERS[tier])
  for k, v in os.environ.items():       # PGVERIF_P_cases=10 overrides
    if k.startswith('PGVERIF_P_'):
      params[k[len('PGVERIF_P_'):]] = json.loads(v)
  return params


def main(argv=None):
  ap = argparse.ArgumentParser()
  ap.add_argument('prop')
  ap.add_argument('--tier', default=os.environ.get('VERIF_TIER', 'quick'),
                  choices=['quick', 'thorough'])
  ap.add_argument('--seed', type=int,
                  default=int(os.environ.get('VERIF_SEED', '0') or 0))
  ap.add_argument('--replay')
  ap.add_argument('--worker', nargs=3, metavar=('SHARD', 'NSHARDS', 'OUT'))
  ap.add_argument('--index', type=int)
  ap.add_argument('--no-evidence', action='store_true')
  args = ap.parse_args(argv)
  prop = args.prop.upper()
  mod = load_module(prop)

  if args.worker:
    shard, nshards, out = int(args.worker[0]), int(args.worker[1]), args.worker[2]
    params = shard_params(mod, args.tier)
    res = run_shard(prop, args.tier, args.seed, shard, nshards, params,
                    only_index=args.index)
    with open(out, 'w') as f:
      json.dump(res, f)
    return 0

  if args.replay:
    return replay(prop, mod, args.replay)

  return run_check(prop, mod, args.tier, args.seed, not args.no_evidence)


def spawn(prop, tier, seed, shard, nshards, timeout, index=None, extra_env=None):
  fd, out = tempfile.mkstemp(prefix=f'pgverif-{prop}-', suffix='.json')
  os.close(fd)
  cmd = [sys.executable, '-B', '-m', 'pgverif.run', prop, '--tier', tier,
         '--seed', str(seed), '--worker', str(shard), str(nshards), out]
  if index is not None:
    cmd += ['--index', str(index)]
  env = dict(os.environ, PYTHONHASHSEED='0', PYTHONDONTWRITEBYTECODE='1')
  env.update(extra_env or {})
  t0 = time.time()
  try:
    p = subprocess.run(cmd, cwd=ROOT, env=env, timeout=timeout,
                       stdout=subprocess.PIPE, stderr=subprocess.STDOUT,
                       text=True, errors='replace')
    try:
      with open(out) as f:
        res = json.load(f)
    except Exception:  # pylint: disable=broad-except
      res = {'shard': shard, 'crash': f'shard exited {p.returncode} without a '
             f'result:\n{p.stdout[-4000:]}'}
    res['stdout'] = p.stdout[-2000:]
  except subprocess.TimeoutExpired as e:
    res = {'shard': shard, 'crash': None, 'watchdog':
           f'shard {shard} exceeded the {timeout}s wall-clock watchdog',
           'stdout': (e.stdout or '')[-2000:] if isinstance(e.stdout, str) else ''}
  finally:
    try:
      os.unlink(out)
    except OSError:
      pass
  res.setdefault('wall_s', time.time() - t0)
  return res


def run_check(prop, mod, tier, seed, write_evidence=True):
  t0 = time.time()
  params = shard_params(mod, tier)
  nshards = int(params.get('shards', 1))
  timeout = int(params.get('timeout_s', 900 if tier == 'quick' else 5400))
  with concurrent.futures.ThreadPoolExecutor(max_workers=16) as ex:
    results = list(ex.map(
        lambda s: spawn(prop, tier, seed, s, nshards, timeout), range(nshards)))

  counters = collections.Counter()
  distinct = collections.defaultdict(set)
  nontrivial = set()
  samples, evaluations = [], 0
  viol = {}
  inconclusive = []
  notes = {}
  for r in results:
    if r.get('watchdog'):
      inconclusive.append(r['watchdog'])
      continue
    if r.get('crash'):
      inconclusive.append(f"shard {r.get('shard')} crashed in harness code: "
                          + r['crash'][-1500:])
    evaluations += r.get('evaluations', 0)
    counters.update(r.get('counters', {}))
    for k, v in r.get('distinct', {}).items():
      distinct[k].update(v)
    nontrivial.update(r.get('nontrivial', []))
    samples.extend(r.get('samples', [])[:2])
    notes.update(r.get('notes', {}))
    for k, rec in r.get('violations', {}).items():
      if k not in viol:
        viol[k] = {'count': 0, 'first': rec['first']}
      viol[k]['count'] += rec['count']

  required = getattr(mod, 'REQUIRED_COUNTERS', [])
  for name in required:
    if counters.get(name, 0) == 0:
      inconclusive.append(f'deciding monitor counter {name!r} is 0')
  if evaluations == 0:
    inconclusive.append('no case was evaluated')

  opened, _ = findings.load_known()
  known_fired, new = {}, {}
  for k, rec in sorted(viol.items()):
    if (prop, k) in opened:
      known_fired[k] = rec
    else:
      new[k] = rec

  for k, rec in known_fired.items():
    print(f'KNOWN-FINDING: property={prop} {k} {opened[(prop, k)]} '
          f'[{rec["count"]} occurrences]')
  rdir = os.path.join(ROOT, 'replays', prop)
  for k, rec in new.items():
    os.makedirs(rdir, exist_ok=True)
    path = os.path.join(rdir, f'{tier}-{seed}-{findings.safe_name(k)}.json')
    with open(path, 'w') as f:
      json.dump(rec['first'], f, indent=1)
    print(f'VIOLATION property={prop} replay={os.path.relpath(path, ROOT)}'
          f' key={k} count={rec["count"]}')
    print('  detail: ' + trunc(rec['first']['detail'], 600).replace('\n', '\n  '))
  for reason in inconclusive:
    print(f'INCONCLUSIVE property={prop} reason={trunc(reason, 1500)}')

  wall = time.time() - t0
  verdict = 'violated' if new else ('inconclusive' if inconclusive else 'held')
  if write_evidence:
    coverage = {
        'evaluations': evaluations,
        'distinct_nontrivial': len(nontrivial),
        'rule': getattr(mod, 'RULE', ''),
        'samples': samples[:6] or ['<none>'],
        'exhaustive': bool(getattr(mod, 'EXHAUSTIVE', {}).get(tier, False)),
        'counters': dict(sorted(counters.items())),
        'distinct_observed': {k: len(v) for k, v in sorted(distinct.items())},
        'required_monitor_counters': {n: counters.get(n, 0) for n in required},
        'known_findings_fired': {k: r['count'] for k, r in known_fired.items()},
        'new_violation_keys': {k: r['count'] for k, r in new.items()},
        'verdict': verdict,
        'inconclusive_reasons': [trunc(r, 300) for r in inconclusive],
        'params': params,
        'shards': nshards,
        'notes': notes,
        'repo': REPO,
    }
    ev = {
        'property_id': prop, 'tier': tier, 'seed': seed,
        'level': getattr(mod, 'LEVEL', 'exploration'),
        'coverage': coverage,
        'assumptions': list(getattr(mod, 'ASSUMPTIONS', [])),
        'wall_s': round(wall, 2),
        'violations': len(new),
    }
    os.makedirs(os.path.join(ROOT, 'evidence'), exist_ok=True)
    with open(os.path.join(ROOT, 'evidence', f'{prop}.json'), 'w') as f:
      json.dump(ev, f, indent=1, sort_keys=False)
      f.write('\n')
  print(f'{prop} {tier} seed={seed}: {verdict}; cases={evaluations} '
        f'nontrivial-distinct={len(nontrivial)} known={len(known_fired)} '
        f'new={len(new)} wall={wall:.1f}s')
  if new:
    return 1
  if inconclusive:
    return 2
  return 0


def replay(prop, mod, path):
  with open(path) as f:
    w = json.load(f)
  if w.get('property') != prop:
    print(f'replay file is for {w.get("property")}, not {prop}')
    return 2
  env = {'PGVERIF_P_' + k: json.dumps(v) for k, v in w['params'].items()}
  r = spawn(prop, w['tier'], w['seed'], w['shard'], w['nshards'], 1800,
            index=w['index'], extra_env=env)
  if r.get('crash') or r.get('watchdog'):
    print(f'INCONCLUSIVE property={prop} reason={r.get("crash") or r.get("watchdog")}')
    return 2
  hit = r.get('violations', {}).get(w['key'])
  if hit:
    print(f'VIOLATION property={prop} replay={path} key={w["key"]} (reproduced)')
    print('  detail: ' + trunc(hit['first']['detail'], 2000).replace('\n', '\n  '))
    return 1
  others = sorted(r.get('violations', {}))
  print(f'{prop}: replay of {w["key"]} did not reproduce'
        + (f' (other keys fired: {others})' if others else ''))
  return 0


if __name__ == '__main__':
  sys.exit(main())
