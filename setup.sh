#!/bin/sh
# Offline self-test of the harness: stdlib only, nothing to build or install.
cd "$(dirname "$0")" || exit 1
/venv/bin/python -B - <<'PY'
import sys
sys.path.insert(0, '/repo'); sys.path.insert(1, '.')
import pyglove, json
from pgverif import run, findings, models
findings.load_known()
m = json.load(open('MANIFEST.json'))
for c in m['checks']:
    run.load_module(c['property_id'])
print('pgverif ok: pyglove from', pyglove.__file__, '; checks:', len(m['checks']))
PY
