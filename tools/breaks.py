#!/venv/bin/python
"""Monitor validation with the lead's own deliberate breaks (DESIGN.md section 7).

  tools/breaks.py [--only C01,C08] [--suite] [--out triage/breaks-results.json]

Each break is an exact string replacement in one source file, applied to a
scratch worktree of /repo (outside /repo and /verif, removed afterwards). The
registered quick check of the property is pointed at it with PGVERIF_REPO and
must report at least one VIOLATION (an unlisted key). With --suite the
repository's own tests that import the touched package are run too, to tell
breaks the existing tests would catch from those they would not.

These breaks are NOT independent of the checks (the lead wrote both); the
independent ones are under seeded/. They complement them by covering the
"Breaks" lines of DESIGN.md section 4.
"""
import argparse
import json
import os
import re
import shutil
import subprocess
import sys
import tempfile

ROOT = os.path.dirname(os.path.dirname(os.path.abspath(__file__)))
S = 'pyglove/core/symbolic/'
T = 'pyglove/core/typing/'

# (id, property, file, old, new, what)
BREAKS = [
    ('C01-b1', 'C01', S + 'base.py',
     "        value = value.clone()\n\n    if isinstance(value, TopologyAware):",
     "        pass\n\n    if isinstance(value, TopologyAware):",
     'drop the copy of an already-parented value in _relocate_if_symbolic'),
    ('C01-b2', 'C01', S + 'list.py',
     "      if isinstance(item, base.TopologyAware) and item.sym_path.key != idx:\n        item.sym_setpath",
     "      if isinstance(item, base.TopologyAware) and item.sym_path.key != idx and idx < 2:\n        item.sym_setpath",
     'List._sync_children_paths re-addresses only the first two children'),
    ('C01-b3', 'C01', S + 'base.py',
     "      self._set_raw_attr('_sym_path', path)\n      self._update_children_paths(old_path, path)",
     "      self._set_raw_attr('_sym_path', path)",
     'sym_setpath no longer updates the paths of the children'),
    ('C01-b4', 'C01', S + 'dict.py',
     "    if isinstance(old_value, base.TopologyAware) and old_value is not new_value:\n      old_value.sym_setparent(None)\n      old_value.sym_setpath(utils.KeyPath())\n    self._sym_reset_content_cache()",
     "    self._sym_reset_content_cache()",
     'Dict item replace keeps the old child attached'),
    ('C02-b1', 'C02', S + 'list.py',
     "    return index.indices(len(self))",
     "    start, stop, step = index.indices(len(self))\n    return (start, max(start, stop - 1) if step == 2 else stop, step)",
     'off-by-one in List._parse_slice for step 2'),
    ('C02-b2', 'C02', S + 'dict.py',
     "    value = pg_typing.MISSING_VALUE\n    if key in self:\n      value = self.sym_getattr(key)\n    if value == pg_typing.MISSING_VALUE:\n      self[key] = default\n      value = default\n    return value",
     "    value = pg_typing.MISSING_VALUE\n    if key in self:\n      value = self.sym_getattr(key)\n    if value == pg_typing.MISSING_VALUE or value is None:\n      self[key] = default\n      value = default\n    return value",
     'Dict.setdefault overwrites a stored None'),
    ('C02-b3', 'C02', S + 'list.py',
     "    if index < -len(self) or index >= len(self):\n      raise IndexError('pop index out of range')",
     "    if index < -len(self) - 1 or index >= len(self):\n      raise IndexError('pop index out of range')",
     'List.pop accepts index -len-1'),
    ('C03-b1', 'C03', S + 'list.py',
     "    if self._value_spec and flags.is_type_check_enabled():\n      value = self._value_spec.element.apply(",
     "    if self._value_spec and flags.is_type_check_enabled() and idx < 3:\n      value = self._value_spec.element.apply(",
     'typed List validates only the first three positions'),
    ('C03-b2', 'C03', T + 'value_specs.py',
     "      if MISSING_VALUE != value and self.default != value:\n        raise ValueError(\n            f'Frozen field is not assignable.",
     "      if MISSING_VALUE != value and self.default != value and value:\n        raise ValueError(\n            f'Frozen field is not assignable.",
     'a frozen spec accepts falsy values (0, "", [], None-like)'),
    ('C03-b3', 'C03', S + 'dict.py',
     "        raise KeyError(\n            self._error_message(\n                f'Key {key!r} is not allowed for {container_cls}.'))",
     "        if not isinstance(key, str) or not key.startswith('z'):\n          raise KeyError(\n              self._error_message(\n                  f'Key {key!r} is not allowed for {container_cls}.'))",
     'undeclared keys starting with "z" are accepted by typed dicts'),
    ('C04-b1', 'C04', T + 'value_specs.py',
     "      if other.max_value is None or other.max_value > self._max_value:\n        return False\n    return True",
     "      if other.max_value is None or other.max_value > self._max_value + 1:\n        return False\n    return True",
     'Number._is_compatible tolerates max + 1'),
    ('C04-b2', 'C04', T + 'value_specs.py',
     "    for v in other.values:\n      if v not in self.values:\n        return False\n    return True",
     "    for v in other.values[:1]:\n      if v not in self.values:\n        return False\n    return True",
     'Enum._is_compatible checks only the first value'),
    ('C07-b1', 'C07', S + 'object.py',
     "    cloned = self.__class__(allow_partial=self._allow_partial,",
     "    cloned = self.__class__(allow_partial=False if not self.sym_partial else self._allow_partial,",
     'Object clone drops allow_partial when the value happens to be complete'),
    ('C07-b2', 'C07', S + 'list.py',
     "      if deep or isinstance(v, base.Symbolic):\n        v = base.clone(v, deep, memo)",
     "      if deep and not isinstance(v, List) or isinstance(v, base.Symbolic) and not deep:\n        v = base.clone(v, deep, memo)",
     'deep clone of a List shares nested Lists'),
    ('C08-b1', 'C08', S + 'list.py',
     "    if base.treats_as_sealed(self):\n      raise base.WritePermissionError(\n          'Cannot insert element into a sealed List.')",
     "    if base.treats_as_sealed(self) and index != 0:\n      raise base.WritePermissionError(\n          'Cannot insert element into a sealed List.')",
     'List.insert at position 0 ignores the seal'),
    ('C08-b2', 'C08', S + 'base.py',
     "  return value.sym_sealed if sealed_in_scope is None else sealed_in_scope",
     "  return value.sym_sealed if sealed_in_scope is None else (sealed_in_scope or value.sym_sealed)",
     'as_sealed(False) no longer overrides a sealed object'),
    ('C18-b1', 'C18', S + 'functor.py',
     "      elif not ignore_extra_args:\n        raise TypeError(\n            f'{signature.id}() got an unexpected keyword argument {arg_name!r}.'",
     "      elif not ignore_extra_args and not arg_name.startswith('z'):\n        raise TypeError(\n            f'{signature.id}() got an unexpected keyword argument {arg_name!r}.'",
     'unknown keyword arguments starting with "z" are silently dropped at call time'),
    ('C19-b1', 'C19', 'pyglove/core/coding/parsing.py',
     "        (ast.For, ast.While, ast.AsyncFor, ast.AsyncWith),",
     "        (ast.For, ast.AsyncFor, ast.AsyncWith),",
     'while loops are not gated by LOOP'),
    ('C19-b2', 'C19', 'pyglove/core/coding/parsing.py',
     "    super().generic_visit(node)",
     "    if not isinstance(node, ast.Lambda):\n      super().generic_visit(node)",
     'the validator does not descend into lambda bodies'),
]


def sh(cmd, **kw):
  return subprocess.run(cmd, text=True, stdout=subprocess.PIPE,
                        stderr=subprocess.STDOUT, **kw)


def main():
  ap = argparse.ArgumentParser()
  ap.add_argument('--only')
  ap.add_argument('--suite', action='store_true')
  ap.add_argument('--out', default=os.path.join(ROOT, 'triage', 'breaks-results.json'))
  args = ap.parse_args()
  only = set(args.only.split(',')) if args.only else None
  wt = tempfile.mkdtemp(prefix='pgverif-breaks-', dir='/tmp')
  os.rmdir(wt)
  r = sh(['git', '-C', '/repo', 'worktree', 'add', '-q', '--detach', wt, 'HEAD'])
  if r.returncode:
    print(r.stdout)
    return 2
  results = []
  try:
    for bid, prop, path, old, new, what in BREAKS:
      if only and prop not in only and bid not in only:
        continue
      f = os.path.join(wt, path)
      src = open(f).read()
      if src.count(old) != 1:
        print(f'{bid}: SKIPPED - anchor found {src.count(old)} times in {path}')
        results.append({'id': bid, 'property': prop, 'status': 'anchor-missing'})
        continue
      open(f, 'w').write(src.replace(old, new))
      try:
        imp = sh(['/venv/bin/python', '-c', 'import pyglove'], env=dict(os.environ, PYTHONPATH=wt))
        rec = {'id': bid, 'property': prop, 'file': path, 'what': what}
        if imp.returncode:
          rec['status'] = 'does-not-import'
        else:
          if args.suite:
            pkg = os.path.dirname(path)
            t = sh(['/venv/bin/python', '-m', 'pytest', '-q', '-p', 'no:cacheprovider', '-x',
                    '-n', '4', pkg], cwd=wt, env=dict(os.environ, PYTHONPATH=wt), timeout=1800)
            rec['package_tests_pass'] = t.returncode == 0
          c = sh([os.path.join(ROOT, 'check'), prop, '--tier', 'quick', '--no-evidence'],
                 env=dict(os.environ, PGVERIF_REPO=wt), timeout=3600)
          keys = re.findall(r'^VIOLATION property=\S+ replay=\S+ key=(\S+)', c.stdout, re.M)
          rec['status'] = 'detected' if keys else ('inconclusive' if c.returncode == 2 else 'missed')
          rec['keys'] = keys[:12]
        results.append(rec)
        print(f"{bid}: {rec['status']} {rec.get('keys', '')} "
              f"tests_pass={rec.get('package_tests_pass')} :: {what}")
      finally:
        open(f, 'w').write(src)
  finally:
    sh(['git', '-C', '/repo', 'worktree', 'remove', '--force', wt])
    shutil.rmtree(wt, ignore_errors=True)
  with open(args.out, 'w') as f:
    json.dump(results, f, indent=1)
  return 0 if all(r.get('status') in ('detected', 'anchor-missing') for r in results) else 1


if __name__ == '__main__':
  sys.exit(main())
