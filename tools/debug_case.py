#!/venv/bin/python
"""In-process re-run of the case recorded in a replay file, printing each step.

  tools/debug_case.py replays/C03/x.json [python expression evaluated before the
  last step with `forest`, `step`, `node` in scope]
"""
import json, os, sys
sys.path.insert(0, os.environ.get('PGVERIF_REPO', '/repo')); sys.path.insert(1, '/verif')
from pgverif import run
from pgverif.gen import ops as O, desc as D
w = json.load(open(sys.argv[1]))
expr = sys.argv[2] if len(sys.argv) > 2 else None
mod = run.load_module(w['property'])
ctx = run.Ctx(w['property'], w['tier'], w['seed'], w['shard'], w['nshards'], w['params'], True)
orig = O.execute
n = [0]
def ex(forest, step):
  n[0] += 1
  print(n[0], O.show_step(step)[:300])
  if expr:
    node = D.resolve(forest, *step['at'])
    try:
      print('   ', eval(expr))
    except Exception as e:
      print('    expr failed', e)
  r = orig(forest, step)
  print('    ->', r[0], repr(r[1])[:150])
  return r
O.execute = ex
if hasattr(mod, 'setup'): mod.setup(ctx)
ctx.begin_case(w['index'])
mod.run_case(ctx, w['index'])
for k, v in ctx.violations.items():
  print('VIOLATION', k, v['first']['detail'][:500])
