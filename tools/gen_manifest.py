#!/venv/bin/python
"""Regenerates MANIFEST.json from the table below and the modules present."""
import json
import os
import subprocess

ROOT = os.path.dirname(os.path.dirname(os.path.abspath(__file__)))

# id: (technique, level text, level note, design ref)
T = {
    'C01': ('invariant monitor (tree_ok) after every step of generated operation histories',
            'Exploration: the tree-integrity invariant (one parent = actual container, true path, lookup returns the node, no node twice, no dangling claim) is evaluated on the real objects after every step of thousands of generated histories over the whole List/Dict/Object mutator table with aliased, foreign-tree and invalid operands. Held = held on the histories counted in the evidence. Operands include the same node object at two places of one call and nodes of twin trees; values are also built through every public constructor form; typed parents with required keys make rejected calls leave real trees behind.',
            'CPython list/dict semantics; only public API observed; self-containing values not generated.', '4/C01'),
    'C02': ('reference-model monitor: built-in list/dict driven in lock-step',
            'Exploration: differential execution of pg.List/pg.Dict without value spec against the built-in list/dict over generated operation histories; outcome (value or exception class), contents, order and every read path compared after every step. Also containers of containers with multi-member batch rebinds from a common ancestor, every notification mode (the reference is the same with notification on or off), and the JSON object/string round trips as read paths.',
            'CPython list/dict are the reference; documented extensions modelled (MISSING deletes, rebind past end appends, Insertion, plain->symbolic).', '4/C02'),
    'C03': ('invariant monitor (schema_ok) after every step incl. rejected writes',
            'Exploration: for typed Dict/List/Object the stored state is re-validated against its value spec after every valid or invalid write through every write path; rejected writes must raise TypeError/ValueError/KeyError and leave the target unchanged. Independent domain clauses (ranges, enum membership, primitive types, None, frozen, sizes, undeclared keys, partiality by walking the members) do not rely on the library\'s own apply/is_partial; rejected operands are retried and must stay unchanged; the defaults declared by all model classes are snapshotted before and after every case.',
            'value_spec.apply on a plain deep copy is the acceptance oracle; type checking on.', '4/C03'),
    'C04': ('algebraic-law monitor over generated spec pairs and boundary values',
            'Exploration: idempotence of apply, acceptability of defaults, apply not mutating the spec, soundness of is_compatible and extend, each decided by calling the real apply on candidate values derived from both specs\' parameters.',
            'acceptance decided by the library\'s own apply on deep copies; Str regex excluded as documented.', '4/C04'),
    'C05': ('round-trip law monitor + path->last-value reference model for persistence histories',
            'Exploration: JSON (object and string form), pickle and deepcopy round trips over generated values with equality, type, hash, tree and schema monitors; save/load/append histories over both file systems against a dict model. Persistence histories keep reader handles open across later operations and read them piecewise.',
            'pg.eq/pg.hash as equality observers (their own laws are C06).', '4/C05'),
    'C06': ('exhaustive pair/triple law evaluation over colliding value pools',
            'Exploration: reflexivity, symmetry, transitivity, ne, hash consistency, operator agreement, trichotomy, gt/lt duality, transitivity of lt, sorting never raises - evaluated on all pairs/triples of generated pools. A history phase mutates pool members in place through every write mode (incl. the silent ones) and re-evaluates eq/ne/lt/gt/hash/operators against twins rebuilt from a plain description.',
            'pools are generated to collide (equal values of different types, permuted dict keys, subclasses).', '4/C06'),
    'C07': ('law monitor at clone time + non-interference monitor over post-clone histories',
            'Exploration: equality/class/spec/flag fidelity, tree and schema monitors, id-disjointness at clone time; then histories on one side with the JSON snapshot of the other side compared after every step. Clones are also taken inside scoped overrides, after derived-state getters were asked of the source, and values with extra public state (DNA metadata/userdata, functor arguments, DNASpec userdata) get histories over that state.',
            'to_json as the observation of the untouched side.', '4/C07'),
    'C08': ('expected-verdict model (innermost scope else object flag) vs every mutator',
            'Exploration: every operation of the table is attempted at and below a protected node under all flag/scope stacks; must raise WritePermissionError and leave to_json unchanged, or succeed when the model says writable. Protection modes: sealed by flag, at construction, sealed then unsealed, nested scopes, accessor flags; operations are also issued at ancestors of the protected node with paths that end inside it; the expected verdict is derived from the configuration, not from the flags the library reports.',
            'operations issued with valid arguments so that protection is the only reason to refuse.', '4/C08'),
    'C09': ('event recorder at public extension points + expected-event calculator; freshness vs deserialized copy',
            'Exploration: exactly-once, bottom-up, exact payload per receiver computed from written locations; derived facts compared with a freshly deserialized copy after every operation. Between steps only a random subset of the derived-state getters is asked (so memos are partly populated), roots with three nested schema-bound containers are written mostly with notifications off, and suppressed structural list edits are followed by notified writes inside the moved elements.',
            'written locations are known to the harness by construction.', '4/C09'),
    'C10': ('tuple-of-keys reference model; identity-based visit log',
            'Exploration: parse/format round trip, path arithmetic vs tuple model, traversal completeness, flatten/canonicalize inverse, KeyPathSet vs python set model over generated keys and histories.',
            'keys are non-empty strings with balanced brackets or ints.', '4/C10'),
    'C11': ('independent brute-force enumerator/validator of search spaces (reference model)',
            'Exploration, exhaustive over all space descriptions up to a size bound: iter_dna/space_size/next_dna/validate/binding/random_dna/Sweeping compared with an enumerator that shares no code with pg.geno; one-step corruptions must be rejected.',
            'the reference enumerator (decision-order DFS) is the oracle.', '4/C11'),
    'C12': ('round-trip and alignment law monitor over the view parameter product',
            'Exploration: from_numbers/from_dict/from_json reconstruct the DNA for every view option; every DNA handed out by the library has the same views as one rebuilt from its raw numbers. Half of the specs are assembled from library objects reused from donor specs (candidates, elements, clones, JSON copies at other positions); ids and decision points are compared with the reference map.',
            'DNA equality as implemented by the library on raw values.', '4/C12'),
    'C13': ('reference decoder from the template description; before/after template snapshots',
            'Exploration: decode leaves no placeholder, equals reference decode, encode inverts decode, template unchanged, iteration yields space_size distinct values. Typed fields with boundary bounds, Evolvable placeholders and decode/random_dna/encode histories in which every value handed out earlier is re-checked.',
            'templates are built from descriptions with distinguishable candidates.', '4/C13'),
    'C14': ('membership (genoref) + alignment + input snapshots + re-run determinism',
            'Exploration: every shipped mutator/recombinator/selector and random operator expressions on generated spaces and populations. A seeded operator must not consume the global random module (state compared around every call); parents that conflict strongly on constrained multi-choices.',
            'operators are driven within their documented preconditions.', '4/C14'),
    'C15': ('two live instances side by side at every crash point (fault enumeration)',
            'Fault enumeration: for each configuration every crash point k in 0..N with the last w feedbacks missing is executed; recovered vs uninterrupted state compared through public attributes and subsequent proposals. The persisted history is handed to recover() in nine Iterable forms (incl. one-shot iterators); spaces with custom decision points whose sweep order is not lexicographic; every seeded configuration runs once with seed 0.',
            'history persisted through JSON; feedback in proposal order.', '4/C15'),
    'C16': ('client-boundary history recorder + offline checker under a deterministic sys.monitoring scheduler',
            'Exploration over schedules: thousands of distinct statement-level interleavings of worker threads forced from outside; histories checked offline for ids 1..N once, one group per trial, exactly-once feedback, quiescent bookkeeping. Two modes: the deterministic token scheduler (switches at statement boundaries, replayable) and a free-running real-thread cross-check (sees races inside one statement).',
            'switches only at LINE events of the instrumented modules; locks made cooperative via threading.Lock factories.', '4/C16'),
    'C17': ('nesting reference model + snapshot-before = snapshot-after restore law; per-thread models under the scheduler',
            'Exploration: random well-nested programs of enter/exit events with exceptions over all context managers, single-threaded and interleaved on 2-4 threads. Programs also use the yielded object as documented inside its block, pass mutable arguments (checked unchanged and not aliased), refine dict-valued options at nested levels and call pg.view(**kwargs) as an implicit scope; threads run free, in lock-step and under the token scheduler.',
            'documented scope (per-thread / process-wide) per manager.', '4/C17'),
    'C18': ('differential execution against inspect.signature binding and the plain function',
            'Exploration: generated signatures x call patterns; functor / symbolized class vs direct call with effective arguments. Families of callables that share one code object but differ in defaults/annotations, and class histories (stateful __init__ that may raise, detours through placeholders and partial states) compared with a fresh Cls(*effective args).',
            'CPython argument binding is the reference.', '4/C18'),
    'C19': ('audit-hook sentinel (compile/exec) + three-valued AST classification + differential exec',
            'Exploration: generated programs x permission subsets; forbidden constructs must be refused before any exec event, permitted programs must agree with plain exec. Runtime errors raised 0..8 calls below the top-level statement must be reported at the top-level statement line (or the innermost program line).',
            'must-gate/free/don\'t-care classification from the property text.', '4/C19'),
    'C20': ('strict HTML tokenizer + metamorphic benign-twin skeleton comparison + canaries',
            'Exploration: hostile values x view options; output must nest properly, have the same skeleton as the benign twin, contain no canary element/attribute, contain every key/leaf, leave the value unchanged. 14% of the cases are histories of interactive control updates (scripts captured and checked by a JS string-literal tokenizer) interleaved with renderings that share the same texts.',
            'html.parser tokenization is the reference.', '4/C20'),
}


# Sentences added to the level text by the widenings of rounds 3 and 4
# (DESIGN.md 10.7, 10.8).
ADD = {
    'C01': 'Keys include hostile-but-legal ones (the empty string, int/str twins, keys that print like other paths); every symbolic object handed to a call and not stored afterwards must be an intact detached tree (also after refused calls and refused constructors); Object classes with regex-keyed fields and symbolic defaults receive explicit MISSING_VALUE arguments; pg.Ref nodes are forest members, and stored nodes fetched as nodes are handed to constructors / wrappers again.',
    'C02': 'Operands come in every form Python accepts (dict / list subclasses, iterables, mappings, pairs); every stored container member must be symbolic and is read through (sym_get, path query, deep rebind); leaves include hostile-equality objects (always / never equal, raising, NaN) compared by identity, subclasses of primitives with a text-sensitive JSON oracle, unusual keys (bool, int subclasses, path syntax); return values of setdefault / pop / popitem / get must be the stored members.',
    'C03': 'Nested scope stacks over {True, False, None} for allow_partial / enable_type_check with the innermost-open-scope reference; typed operands whose spec neighbours the field spec (bounds incl. 0 / 0.0 / -0.0, regexes, sizes); known typed-operand keys narrowed by a reference diagnosis of the stored value.',
    'C04': 'Specs carry idempotent user transforms and are used (applied, rendered, compared) before they are extended, also through real pg.Object subclassing; results of apply are checked for identity-sharing with defaults anywhere in the spec tree and mutated in place, after which the spec must still match its snapshot.',
    'C05': 'Strings and keys include lone surrogates, NUL, every line break and 70k characters; every value also goes through both file systems (save / overwrite / append, relative spellings, text-binary overwrites) with a failed-write clause; functions with positional and keyword-only defaults of every serializable kind; objects with user-defined equality compared member by member with a twin; pg.KeyPath values over hostile keys; the same in-memory JSON value is loaded repeatedly.',
    'C06': 'Pools contain Object classes with variable-key fields stored in any order, NaN / never-equal leaves shared by identity (judged where the leaf only meets itself), tuple subclasses and subclasses of pg.List / pg.Dict, and twins reached by clone.',
    'C07': 'Typed containers are clone roots; tuple-valued members hold symbolic nodes and mutable objects (identity walk through tuples and plain containers); flag keys carry scope and position; members sit under unusual dict keys; nodes get flag histories (accessor, seal / unseal below sealed); subclasses of pg.Dict / pg.List, specs with user transforms, functor clones inside auto_call_functors.',
    'C08': 'Scope objects are created early and entered later (stack reference model); flag operations happen inside scopes with the deep check after leaving; functors, hyper values and DNA are forest nodes and the unchanged-snapshot includes their public state outside the fields (argument sets, call result, flags); descendant flag operations followed by seal / unseal of the ancestor; refused batches must leave the whole tree unchanged.',
    'C09': 'Functors with partly unbound arguments are forest nodes (directed bind / unbind / write-below steps); pg.patch_on_* / pg.patch / clone(override=) are in the operation table with their notification options; keys include the empty string and bracket syntax; the dicts returned by sym_missing / sym_nondefault are tampered with and every fact re-asked.',
    'C10': 'Tree cases come as fresh, aliased (one member object at several paths), inferential (pg.Ref, ValueFromParentChain, contextual attributes per holder class) and history (writes, JSON round trips, moves before traversal) flavours; every symbolic node must report the path of its position.',
    'C11': 'One generator object is set up repeatedly (same spec object, equal copy, other spec); floats in all four scales with pinned, few-ulp, huge and overflowing ranges and RNG stubs returning the extremes, NaN corruptions; enumerable custom points over hostile genomes (empty string etc.) in seven embeddings with bounded iteration; space_size of specs with 1-4 infinite elements; corruptions applied in place to bound DNAs before validate / use_spec; successors of sealed DNAs.',
    'C12': 'Call histories on one long-lived spec and on its parts used as specs of their own (first_dna / next_dna / iter_dna / random_dna with attach_spec absent, True, False, in any order).',
    'C13': 'Clients edit decoded values in place between decodes (identity disjointness between results and template); equal values with permuted dict keys encode to the same DNA; non-member encode inputs must leave the template unchanged; templates carry sealed / accessor / partial flags; plain dict / list roots are judged fully.',
    'C14': 'Operator histories (construct, call, rebind / assign seed or parameters, clone with override, JSON round trip, call again) are compared with a fresh operator of the same parameters for every seeded operator family; a probe runs seeded recombinators over parents with str decisions in subprocesses under several PYTHONHASHSEED values and compares the children, order included.',
    'C15': 'The persisted history is delivered to recover() in 1-4 pieces at every class of cut (empty first / last piece, before a pending entry, inside / after the population fill); num_generations and the initial-population phase of the next proposal are compared; user-defined generators whose proposals depend on their counters.',
    'C16': 'Window sessions release all workers together at their first feedback / start and pre-empt at every statement inside the window (lockstep, stutter, dense, enumerated depths) with a user-style algorithm whose multi-statement bookkeeping is audited; group ids over the documented int|str domain incl. 0 and the empty string; trials that take several deliveries with num_examples set.',
    'C17': 'Fifteen kinds of events in which code the library dispatches to raises and is caught inside the block are followed by effectiveness checks; scope objects created early and entered late for every manager; DynamicEvaluationContext.apply with exits that raise, nested on one context; enters that raise inside an enclosing scope of the same kind; rebinds of the governed object inside the block; empty-collection arguments.',
    'C18': 'Decorated callables (1-4 wrapper layers with visible effect), nested partial arguments completed through deep paths with an instrumented __init__, fully annotated signatures with Unions in both member orders under auto_typing compared type-sensitively, keyword-argument order through clone / JSON / pickle, late binding of *args, first parameters named self / cls, positional-only parameters.',
    'C19': 'The way a permission is supplied (argument, scope, both, nested) is crossed with every way of executing (evaluate, run, maybe_sandbox_call, sandbox_call; sandbox None / False / True; timeout); programs whose values are exception instances / classes; nests of 20-900 levels; programs whose last statement has no value.',
    'C20': 'Every string-valued constructor argument of every control is a payload slot in every structural position, on* handler code is tokenized and compared with the twin; extension nodes (pg.Ref, user HtmlTreeView.Extension classes); histories with renderings that fail midway in user code followed by judged renderings; hostile dict keys (path syntax) for every key style; out-of-range but legal control arguments with the snapshot taken before the first rendering.',
}


# Properties whose check is finished (built, swept, committed).
READY = ['C01', 'C02', 'C03', 'C04', 'C05', 'C06', 'C07', 'C08', 'C09', 'C10', 'C11', 'C12', 'C13', 'C14', 'C15', 'C16', 'C17', 'C18', 'C19', 'C20']


def main():
  props = [json.loads(l) for l in open(os.path.join(ROOT, 'properties.jsonl'))]
  checks, na = [], []
  for p in props:
    pid = p['id']
    if pid in READY and os.path.exists(os.path.join(ROOT, 'pgverif', 'props', pid.lower() + '.py')):
      tech, text, note, ref = T[pid]
      mod_level = 'exploration'
      src = open(os.path.join(ROOT, 'pgverif', 'props', pid.lower() + '.py')).read()
      if "LEVEL = 'fault_enumeration'" in src:
        mod_level = 'fault_enumeration'
      checks.append({
          'property_id': pid,
          'quick_cmd': f'./check {pid} --tier quick',
          'thorough_cmd': f'./check {pid} --tier thorough',
          'evidence_file': f'evidence/{pid}.json',
          'replay_cmd_template': f'./check {pid} --replay {{path}}',
          'engine': 'pgverif',
          'level_claimed': {'category': mod_level, 'text': text + (' ' + ADD[pid] if pid in ADD else ''),
                            'design_ref': f'DESIGN.md section {ref}'},
          'level_note': note,
          'technique': 'runtime monitoring: ' + tech,
      })
    else:
      na.append({'property_id': pid,
                 'reason': 'check not built yet (work in progress; the design claims it, see DESIGN.md)'})
  try:
    commits = subprocess.run(
        ['git', '-C', '/repo', 'log', '--format=%h %s', 'a997663..HEAD'],
        capture_output=True, text=True).stdout.strip().splitlines()
  except Exception:  # pylint: disable=broad-except
    commits = []
  m = {
      'version': 1,
      'setup_cmd': './setup.sh',
      'hooks': {
          'guard': 'PYGLOVE_VERIF',
          'enable': 'none needed: no source hooks were added to /repo; all observation is at the public API, thread schedules are forced from outside with sys.monitoring. pyglove is an editable install, so every check executes /repo\'s current working tree (the runner also puts /repo first on sys.path).',
          'baseline_off_cmd': 'cd /repo && /venv/bin/python -m pytest -q -p no:cacheprovider --timeout=900 -n 8',
          'source_commits': [],
          'add_only': True,
      },
      'engines': [{
          'name': 'pgverif', 'path': 'pgverif/',
          'serves_properties': [c['property_id'] for c in checks],
          'kind_free_text': 'stdlib-only runtime-monitoring harness: seeded workload generators, reference-model and invariant monitors evaluated after every step, history recorders with offline checkers, sys.monitoring thread scheduler, audit hooks',
      }],
      'checks': checks,
      'not_applicable': na,
      'notes': 'Exit 0 held / 1 VIOLATION / 2 INCONCLUSIVE. Known findings and repaired defects: KNOWN_FINDINGS.txt. There are no hook commits in /repo (hooks.source_commits is empty); the unguarded "fix:" commits are: ' + '; '.join(commits),
  }
  with open(os.path.join(ROOT, 'MANIFEST.json'), 'w') as f:
    json.dump(m, f, indent=1)
    f.write('\n')
  print('checks:', [c['property_id'] for c in checks], 'n/a:', len(na))


if __name__ == '__main__':
  main()
