#!/venv/bin/python
"""Regenerates MANIFEST.json from the table below and the modules present."""
import json
import os
import subprocess

ROOT = os.path.dirname(os.path.dirname(os.path.abspath(__file__)))

# id: (technique, level text, level note, design ref)
T = {
    'C01': ('invariant monitor (tree_ok) after every step of generated operation histories',
            'Exploration: the tree-integrity invariant (one parent = actual container, true path, lookup returns the node, no node twice, no dangling claim) is evaluated on the real objects after every step of thousands of generated histories over the whole List/Dict/Object mutator table with aliased, foreign-tree and invalid operands. Held = held on the histories counted in the evidence.',
            'CPython list/dict semantics; only public API observed; self-containing values not generated.', '4/C01'),
    'C02': ('reference-model monitor: built-in list/dict driven in lock-step',
            'Exploration: differential execution of pg.List/pg.Dict without value spec against the built-in list/dict over generated operation histories; outcome (value or exception class), contents, order and every read path compared after every step.',
            'CPython list/dict are the reference; documented extensions modelled (MISSING deletes, rebind past end appends, Insertion, plain->symbolic).', '4/C02'),
    'C03': ('invariant monitor (schema_ok) after every step incl. rejected writes',
            'Exploration: for typed Dict/List/Object the stored state is re-validated against its value spec after every valid or invalid write through every write path; rejected writes must raise TypeError/ValueError/KeyError and leave the target unchanged.',
            'value_spec.apply on a plain deep copy is the acceptance oracle; type checking on.', '4/C03'),
    'C04': ('algebraic-law monitor over generated spec pairs and boundary values',
            'Exploration: idempotence of apply, acceptability of defaults, apply not mutating the spec, soundness of is_compatible and extend, each decided by calling the real apply on candidate values derived from both specs\' parameters.',
            'acceptance decided by the library\'s own apply on deep copies; Str regex excluded as documented.', '4/C04'),
    'C05': ('round-trip law monitor + path->last-value reference model for persistence histories',
            'Exploration: JSON (object and string form), pickle and deepcopy round trips over generated values with equality, type, hash, tree and schema monitors; save/load/append histories over both file systems against a dict model.',
            'pg.eq/pg.hash as equality observers (their own laws are C06).', '4/C05'),
    'C06': ('exhaustive pair/triple law evaluation over colliding value pools',
            'Exploration: reflexivity, symmetry, transitivity, ne, hash consistency, operator agreement, trichotomy, gt/lt duality, transitivity of lt, sorting never raises - evaluated on all pairs/triples of generated pools.',
            'pools are generated to collide (equal values of different types, permuted dict keys, subclasses).', '4/C06'),
    'C07': ('law monitor at clone time + non-interference monitor over post-clone histories',
            'Exploration: equality/class/spec/flag fidelity, tree and schema monitors, id-disjointness at clone time; then histories on one side with the JSON snapshot of the other side compared after every step.',
            'to_json as the observation of the untouched side.', '4/C07'),
    'C08': ('expected-verdict model (innermost scope else object flag) vs every mutator',
            'Exploration: every operation of the table is attempted at and below a protected node under all flag/scope stacks; must raise WritePermissionError and leave to_json unchanged, or succeed when the model says writable.',
            'operations issued with valid arguments so that protection is the only reason to refuse.', '4/C08'),
    'C09': ('event recorder at public extension points + expected-event calculator; freshness vs deserialized copy',
            'Exploration: exactly-once, bottom-up, exact payload per receiver computed from written locations; derived facts compared with a freshly deserialized copy after every operation.',
            'written locations are known to the harness by construction.', '4/C09'),
    'C10': ('tuple-of-keys reference model; identity-based visit log',
            'Exploration: parse/format round trip, path arithmetic vs tuple model, traversal completeness, flatten/canonicalize inverse, KeyPathSet vs python set model over generated keys and histories.',
            'keys are non-empty strings with balanced brackets or ints.', '4/C10'),
    'C11': ('independent brute-force enumerator/validator of search spaces (reference model)',
            'Exploration, exhaustive over all space descriptions up to a size bound: iter_dna/space_size/next_dna/validate/binding/random_dna/Sweeping compared with an enumerator that shares no code with pg.geno; one-step corruptions must be rejected.',
            'the reference enumerator (decision-order DFS) is the oracle.', '4/C11'),
    'C12': ('round-trip and alignment law monitor over the view parameter product',
            'Exploration: from_numbers/from_dict/from_json reconstruct the DNA for every view option; every DNA handed out by the library has the same views as one rebuilt from its raw numbers.',
            'DNA equality as implemented by the library on raw values.', '4/C12'),
    'C13': ('reference decoder from the template description; before/after template snapshots',
            'Exploration: decode leaves no placeholder, equals reference decode, encode inverts decode, template unchanged, iteration yields space_size distinct values.',
            'templates are built from descriptions with distinguishable candidates.', '4/C13'),
    'C14': ('membership (genoref) + alignment + input snapshots + re-run determinism',
            'Exploration: every shipped mutator/recombinator/selector and random operator expressions on generated spaces and populations.',
            'operators are driven within their documented preconditions.', '4/C14'),
    'C15': ('two live instances side by side at every crash point (fault enumeration)',
            'Fault enumeration: for each configuration every crash point k in 0..N with the last w feedbacks missing is executed; recovered vs uninterrupted state compared through public attributes and subsequent proposals.',
            'history persisted through JSON; feedback in proposal order.', '4/C15'),
    'C16': ('client-boundary history recorder + offline checker under a deterministic sys.monitoring scheduler',
            'Exploration over schedules: thousands of distinct statement-level interleavings of worker threads forced from outside; histories checked offline for ids 1..N once, one group per trial, exactly-once feedback, quiescent bookkeeping.',
            'switches only at LINE events of the instrumented modules; locks made cooperative via threading.Lock factories.', '4/C16'),
    'C17': ('nesting reference model + snapshot-before = snapshot-after restore law; per-thread models under the scheduler',
            'Exploration: random well-nested programs of enter/exit events with exceptions over all context managers, single-threaded and interleaved on 2-4 threads.',
            'documented scope (per-thread / process-wide) per manager.', '4/C17'),
    'C18': ('differential execution against inspect.signature binding and the plain function',
            'Exploration: generated signatures x call patterns; functor / symbolized class vs direct call with effective arguments.',
            'CPython argument binding is the reference.', '4/C18'),
    'C19': ('audit-hook sentinel (compile/exec) + three-valued AST classification + differential exec',
            'Exploration: generated programs x permission subsets; forbidden constructs must be refused before any exec event, permitted programs must agree with plain exec.',
            'must-gate/free/don\'t-care classification from the property text.', '4/C19'),
    'C20': ('strict HTML tokenizer + metamorphic benign-twin skeleton comparison + canaries',
            'Exploration: hostile values x view options; output must nest properly, have the same skeleton as the benign twin, contain no canary element/attribute, contain every key/leaf, leave the value unchanged.',
            'html.parser tokenization is the reference.', '4/C20'),
}


# Properties whose check is finished (built, swept, committed).
READY = ['C01', 'C02', 'C03', 'C04', 'C05', 'C06', 'C07', 'C08', 'C09', 'C10', 'C11', 'C12', 'C13', 'C14', 'C15', 'C16', 'C17', 'C18', 'C19', 'C20']


def main():
  props = [json.loads(l) for l in open(os.path.join(ROOT, 'properties.jsonl'))]
  checks, na = [], []
  for p in props:
    pid = p['id']
    if pid in READY and os.path.exists(os.path.join(ROOT, 'pgverif', 'props', pid.lower() + '.py')):
      tech, text, note, ref = T[pid]
      mod_level = 'exploration'
      src = open(os.path.join(ROOT, 'pgverif', 'props', pid.lower() + '.py')).read()
      if "LEVEL = 'fault_enumeration'" in src:
        mod_level = 'fault_enumeration'
      checks.append({
          'property_id': pid,
          'quick_cmd': f'./check {pid} --tier quick',
          'thorough_cmd': f'./check {pid} --tier thorough',
          'evidence_file': f'evidence/{pid}.json',
          'replay_cmd_template': f'./check {pid} --replay {{path}}',
          'engine': 'pgverif',
          'level_claimed': {'category': mod_level, 'text': text,
                            'design_ref': f'DESIGN.md section {ref}'},
          'level_note': note,
          'technique': 'runtime monitoring: ' + tech,
      })
    else:
      na.append({'property_id': pid,
                 'reason': 'check not built yet (work in progress; the design claims it, see DESIGN.md)'})
  try:
    commits = subprocess.run(
        ['git', '-C', '/repo', 'log', '--format=%h %s', 'a997663..HEAD'],
        capture_output=True, text=True).stdout.strip().splitlines()
  except Exception:  # pylint: disable=broad-except
    commits = []
  m = {
      'version': 1,
      'setup_cmd': './setup.sh',
      'hooks': {
          'guard': 'PYGLOVE_VERIF',
          'enable': 'none needed: no source hooks were added to /repo; all observation is at the public API, thread schedules are forced from outside with sys.monitoring. pyglove is an editable install, so every check executes /repo\'s current working tree (the runner also puts /repo first on sys.path).',
          'baseline_off_cmd': 'cd /repo && /venv/bin/python -m pytest -q -p no:cacheprovider --timeout=900 -n 8',
          'source_commits': [],
          'add_only': True,
      },
      'engines': [{
          'name': 'pgverif', 'path': 'pgverif/',
          'serves_properties': [c['property_id'] for c in checks],
          'kind_free_text': 'stdlib-only runtime-monitoring harness: seeded workload generators, reference-model and invariant monitors evaluated after every step, history recorders with offline checkers, sys.monitoring thread scheduler, audit hooks',
      }],
      'checks': checks,
      'not_applicable': na,
      'notes': 'Exit 0 held / 1 VIOLATION / 2 INCONCLUSIVE. Known findings and repaired defects: KNOWN_FINDINGS.txt. There are no hook commits in /repo (hooks.source_commits is empty); the unguarded "fix:" commits are: ' + '; '.join(commits),
  }
  with open(os.path.join(ROOT, 'MANIFEST.json'), 'w') as f:
    json.dump(m, f, indent=1)
    f.write('\n')
  print('checks:', [c['property_id'] for c in checks], 'n/a:', len(na))


if __name__ == '__main__':
  main()
