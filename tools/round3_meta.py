#!/usr/bin/env python3
"""Writes seeded/<id>/meta.json for the round-3 seeded changes from one table.

first = outcome of the property's own quick check (seed 0) when the change was
imported; cross = other properties' checks that caught it at that time;
followup = what happened after the checks were widened (filled in by hand from
tools/seeded_eval.py runs; empty = nothing further was done).
"""
import json
import os

ROOT = os.path.dirname(os.path.dirname(os.path.abspath(__file__)))
AUTHOR = ('independent sub-agent given only the property text, its scratch '
          'worktree of /repo and the list of code sites used in rounds 1 and 2 '
          '(asked for a change at a different site whose effect needs a specific '
          'state, history or input shape)')
CONFIRMED = ('demo.py exits 0/PASS on the clean tree and 1/FAIL with patch.diff '
             'applied (tools/seeded_eval.py, scratch worktree of /repo HEAD); the '
             'sub-agent ran the repository test suite with the change: only the '
             'baseline-flaky tests fail')

T = {
    'C01-r3m1': dict(
        change="KeyPath.__eq__ compares the cached path strings; the key '' renders as nothing, so a pre-built container stored under the empty-string key keeps the root path and its descendants lose the '' component",
        needs="an untyped dict with the key '' (or another key whose printed form collides) holding a pre-built symbolic value",
        first='missed', cross=''),
    'C01-r3m2': dict(
        change='symbolic.from_json moves an already-symbolic parent-less value to the target path before field.apply runs: a value that a typed slot rejects keeps the refused path',
        needs='a rejected typed write whose operand is a parent-less symbolic container; the operand is inspected afterwards',
        first='missed', cross=''),
    'C02-r3m1': dict(
        change='to_json_str int-key encoding gets a fast path for all-string-key dicts that does not descend into list values: int keys below such a list are written as plain strings', needs='a dict with only string keys holding a list that holds a dict with int keys, through a JSON-string read path', first='DETECTED', cross=''),
    'C02-r3m2': dict(
        change='symbolic.from_json tests type(v) is dict/list instead of isinstance: operands that are subclasses of dict/list are stored raw',
        needs='an OrderedDict / defaultdict / user subclass operand followed by a path-addressed operation through the stored member',
        first='missed', cross=''),
    'C03-r3m1': dict(change='Dict.custom_apply re-applies the field spec only for strict Dict -> partial owner, not for partial Dict -> strict owner', needs='a typed pg.Dict made partial inside pg.allow_partial(True), then stored in a strict owner', first='DETECTED', cross=''),
    'C03-r3m2': dict(change='typing.Object._apply checks is_partial only when the value itself has allow_partial == True', needs='an object made partial under the scoped flag (own flag stays False), then written into a strict owner outside the scope', first='DETECTED', cross=''),
    'C04-r3m1': dict(
        change='List._extend extends a deep copy of the element field; the cached skip_user_transform copy of a spec with a user transform keeps the old element spec',
        needs='a List spec with transform= that was applied before being extended',
        first='missed', cross=''),
    'C04-r3m2': dict(
        change='Schema.apply no longer copies a default whose type is tuple: a tuple holding a list is shared between the completed value and the spec default',
        needs='a default that is a tuple containing a mutable container, and a second in-place operation on the value apply returned',
        first='missed', cross='C03 missed'),
    'C05-r3m1': dict(
        change='to_json_str uses ensure_ascii=False: a lone surrogate in a string makes pg.save on the standard file system raise and a failed overwrite leaves the path empty',
        needs='strings with unpaired surrogates written through the standard file system',
        first='missed', cross=''),
    'C05-r3m2': dict(
        change="resolve_typenames no longer descends below 'function'/'method' nodes: a function whose defaults hold a typed value cannot be loaded",
        needs='a lambda / nested function with a class, function, symbolic object or spec among its defaults',
        first='missed', cross='C18 missed'),
    'C06-r3m1': dict(
        change='Dict.sym_hash combines the item hashes in order (tuple) instead of as a set when the dict holds the attributes of an Object',
        needs='an Object class with a variable-key (StrKey) field whose dynamic keys were stored in different orders',
        first='missed', cross=''),
    'C06-r3m2': dict(change='pg.lt on dicts skips key sorting when both key sequences coincide', needs='three dicts: two with the same non-sorted insertion order, a third equal to one of them with sorted order (transitivity / substitution of equals)', first='DETECTED', cross=''),
    'C07-r3m1': dict(
        change='Dict._sym_clone fast path treats tuples as immutable leaves: objects inside a tuple-valued entry are shared between original and deep clone',
        needs='a tuple-valued Dict entry holding mutable / symbolic objects',
        first='missed', cross=''),
    'C07-r3m2': dict(
        change='List.custom_apply sets allow_partial on every apply: a typed pg.List that is the root of a clone taken inside pg.allow_partial(x) gets the scope value',
        needs='a typed List as the ROOT of a clone taken inside an allow_partial scope (the nested case is a known open finding)',
        first='missed (swallowed by the known key flag-differs:allow_partial/List@scope)', cross='C03 missed'),
    'C08-r3m1': dict(
        change='thread_local_value_scope captures the value to restore when the scope object is created instead of when it is entered',
        needs='a scope object created in one scope state and entered under another',
        first='missed', cross='C17 missed'),
    'C08-r3m2': dict(
        change='Dict.seal early return compares treats_as_sealed(self) (scope-aware) instead of the own flag',
        needs='seal() / sealed construction / clone performed while a pg.as_sealed scope of the same value is active',
        first='missed', cross=''),
    'C09-r3m1': dict(
        change='Functor._sym_missing walks only the specified args, which are updated only on notification',
        needs='a functor in the tree with an argument not bound at construction, later bound to a partial value with notifications suppressed',
        first='missed', cross=''),
    'C09-r3m2': dict(change='thread_local_value_scope restores on normal exit or in except Exception instead of try/finally', needs='a scope left through a BaseException that is not an Exception (GeneratorExit, KeyboardInterrupt, SystemExit, CancelledError)', first='missed',
                     cross='C17 DETECTED (restore:*)'),
    'C10-r3m1': dict(change='List._finalize_updates re-indexes the children only when the batch removed something', needs='a List of symbolic elements and a batch that only inserts (pg.Insertion / slice insert)', first='missed',
                     cross='C01 DETECTED (stale-path:List.__setitem__, stale-path:rebind)'),
    'C10-r3m2': dict(change="Object.__init__ no longer passes root_path to its attribute container; sym_setpath's no-op early-out then never re-paths the children", needs='an Object constructed with an explicit non-empty root_path (deserialization of nested objects) and then stored at that path', first='missed',
                     cross='C01 DETECTED (stale-path:json-roundtrip, stale-path:rebind)'),
    'C11-r3m1': dict(
        change='DNAGenerator.setup returns early when called again with the identical DNASpec object: a re-used Sweeping keeps its cursor',
        needs='the same generator instance set up twice on the same spec object with proposals in between',
        first='missed', cross=''),
    'C11-r3m2': dict(
        change="Float._random_dna for scale log/rlog computes exp(uniform(log min, log max)) unclamped: a draw at a range end lies one ulp outside",
        needs='log/rlog scale with min == max on a double that does not round-trip through exp(log(x)), or an RNG stub returning the extremes',
        first='missed', cross=''),
    'C12-r3m1': dict(
        change='DNASpec.first_dna() memoised per spec object, ignoring attach_spec: the internal first_dna(attach_spec=False) calls of iteration fill the caches of sub-spaces with unbound DNAs',
        needs='iterate an enclosing space (or call first_dna(attach_spec=False)), then call first_dna() on a sub-space',
        first='missed', cross=''),
    'C12-r3m2': dict(
        change='CustomDecisionPoint.use_symbolic_comparison = True: equal custom decision points at different places collapse into one key of the dna_spec-keyed dictionary view',
        needs='a custom decision point duplicated in the space, both copies active, key type dna_spec',
        first='DETECTED (to_dict-content:to_dict[kt=dna_spec,...])', cross=''),
    'C13-r3m1': dict(
        change='Choices._next_dna returns None instead of carrying to an earlier choice position when no completion exists',
        needs='a manyof that is distinct AND sorted with at least 3 choices and more candidates than choices',
        first='DETECTED (iter-count:pg.iter)', cross=''),
    'C13-r3m2': dict(
        change='CustomHyper._decode memoises the last genome and its decoded value; a parentless decoded value placed inside a container is adopted without a copy',
        needs='a custom / evolvable placeholder nested in a container, decode, in-place edit of the result, decode of the same DNA again',
        first='missed', cross=''),
    'C14-r3m1': dict(
        change='Inversion (~x) rewritten as an in-place id filter that no longer forwards step to its operand',
        needs='an inversion over a step-scheduled parameter called at a step other than 0',
        first='DETECTED (unexpected-exception:Inversion)', cross=''),
    'C14-r3m2': dict(
        change='mutators.Uniform draws the sub-tree of a new distinct candidate from the global random module instead of its seeded generator',
        needs='Uniform(seed=int) on a distinct manyof with nested decision points; two runs with different global random state',
        first='DETECTED (global-rng-consumed:mutators.Uniform, nondeterministic:algorithm.nsga2)', cross=''),
    'C15-r3m1': dict(
        change='DNAGenerator.recover assigns the counts of the replayed piece instead of accumulating',
        needs='a history delivered in two or more recover() calls',
        first='missed', cross=''),
    'C15-r3m2': dict(
        change='NEAT population_update keeps only the latest generation only when num_generations > 1, which recover restores after the update',
        needs='a crash exactly at num_feedbacks == population_size + 1',
        first='DETECTED (population:neat, population:neat+pending)', cross=''),
    'C16-r3m1': dict(
        change='_InMemoryBackend.next re-checks is_active after create_trial and raises StopIteration: the created trial is orphaned',
        needs="a worker's end_loop() between another worker's is_active check and the statement after create_trial",
        first='DETECTED (not-completed:quiescence)', cross=''),
    'C16-r3m2': dict(
        change='the per-study feedback lock is replaced by one created lazily on the algorithm at first use (getattr / if None / create / set)',
        needs='two workers at their FIRST feedback with a switch inside the lazy initialisation and another inside the algorithm feedback',
        first='missed', cross=''),
    'C17-r3m1': dict(
        change='with_contextual_override snapshots plain values: explicitly propagated overrides lose cascade / override_attrs',
        needs='an override entered with cascade=True or override_attrs=True carried to another thread by pg.with_contextual_override',
        first='DETECTED (explicit-propagation:with_contextual_override)', cross=''),
    'C17-r3m2': dict(
        change='class detour with a function destination: the temporary cls -> cls mapping is restored by straight-line code instead of try/finally',
        needs='a destination function that raises, caught inside the pg.detour block, then another instantiation or nested scope',
        first='missed', cross=''),
    'C18-r3m1': dict(
        change='functor_class unwraps the function (inspect.unwrap): decorator layers are skipped at call time',
        needs='a functools.wraps-decorated function whose decorator has a visible effect',
        first='missed', cross=''),
    'C18-r3m2': dict(
        change='Object._sym_missing no longer invalidates the missing-values cache of its attribute dict',
        needs='a symbolized class with a nested partial argument completed later through a deep path',
        first='missed', cross='C09 DETECTED (stale-derived:* on many operations)'),
    'C19-r3m1': dict(
        change='maybe_sandbox_call with a timeout and sandbox=False runs on a worker thread that does not inherit the thread-local permission scope',
        needs='a pg.coding.permission scope (not an argument) combined with timeout=',
        first='missed', cross='C17 missed'),
    'C19-r3m2': dict(
        change='sandbox_call returns the un-pickled result directly: a result VALUE that is an exception instance is raised',
        needs='sandboxed code whose result is an exception object',
        first='missed', cross=''),
    'C20-r3m1': dict(
        change='View._track_rendering lost its try/finally: after a rendering that raised inside an extension node the next rendering skips the extension content',
        needs='a pg.Ref / extension node, a rendering that raises midway, a later rendering on the same thread with tooltips off',
        first='missed', cross=''),
    'C20-r3m2': dict(
        change='LabelGroup writes plain static value labels with an f-string, bypassing attribute escaping of the css class list',
        needs='a value label of a non-interactive LabelGroup whose css class contains a double quote',
        first='missed', cross=''),
}

FOLLOWUP = {}
try:
  with open(os.path.join(ROOT, 'seeded', 'round3_followup.json')) as f:
    FOLLOWUP = json.load(f)
except FileNotFoundError:
  pass


def main():
  for name, row in sorted(T.items()):
    d = os.path.join(ROOT, 'seeded', name)
    if not os.path.isdir(d):
      print('missing', name)
      continue
    ran = f"{name.split('-')[0]} quick seed 0 at import: {row['first'] or 'not evaluated'}"
    if row['cross']:
      ran += f"; other checks: {row['cross']}"
    if FOLLOWUP.get(name):
      ran += f"; follow-up: {FOLLOWUP[name]}"
    meta = dict(property=name.split('-')[0], round=3, change=row['change'],
                needs_to_manifest=row['needs'], what_was_run=ran,
                author=AUTHOR, confirmed=CONFIRMED)
    with open(os.path.join(d, 'meta.json'), 'w') as f:
      json.dump(meta, f, indent=1, ensure_ascii=False)
      f.write('\n')
  print('wrote', len(T))


if __name__ == '__main__':
  main()
