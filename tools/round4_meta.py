#!/usr/bin/env python3
"""Writes seeded/<id>/meta.json for the round-4 seeded changes (same scheme as
tools/round3_meta.py; follow-ups in seeded/round4_followup.json)."""
import json
import os

ROOT = os.path.dirname(os.path.dirname(os.path.abspath(__file__)))
AUTHOR = ('independent sub-agent given only the property text, its scratch '
          'worktree of /repo, the list of code sites used in rounds 1-3 and the '
          'list of mechanisms those rounds used (asked for other sites, helper '
          'layers included, and other mechanisms)')
CONFIRMED = ('demo.py exits 0/PASS on the clean tree and 1/FAIL with patch.diff '
             'applied (tools/seeded_eval.py, scratch worktree of /repo HEAD); the '
             'sub-agent ran the repository test suite with the change: only the '
             'baseline-flaky tests fail')

T = {
    'C01-r4m1': ('Schema.apply hoists the deepcopy of a field default out of the per-key loop: keys matched by one regex key spec share one default copy, and an Object under construction stores it under two names',
                 'an Object with a regex-keyed field whose spec has a symbolic default, >= 2 such keys passed as MISSING_VALUE in one constructor call', 'missed', ''),
    'C01-r4m2': ('Ref.__new__ returns an existing Ref; Python re-runs __init__ on it, resetting parent and path of a node still stored in a tree',
                 'a pg.Ref node obtained as a node (sym_getattr / traverse) passed to pg.Ref(...) again', 'missed', ''),
    'C02-r4m1': ('MissingValue.__eq__ returns NotImplemented for non-missing operands: MISSING_VALUE == item falls back to the item\'s own __eq__, a value with permissive equality is taken for the deletion marker',
                 'a value such as mock.ANY written by setitem / slice / rebind / update / setdefault', 'missed', ''),
    'C02-r4m2': ('to_json tests type(value) in PRIMITIVES instead of isinstance: int subclasses serialise as floats, str / float subclasses as opaque blobs',
                 'IntEnum / user subclasses of primitives as leaves and a type- or text-sensitive JSON read-out', 'missed', ''),
    'C03-r4m1': ('Number._is_compatible treats an upper bound of exactly 0 as unbounded: a typed container operand is accepted through is_compatible alone',
                 'max_value == 0 / 0.0 on the field and the offending number inside an already typed (looser) container operand', 'missed', 'C04 DETECTED (compat-unsound:Int<-Int:max-value)'),
    'C03-r4m2': ('flags.allow_partial(None) returns a null context: an inner allow_partial(None) no longer masks an outer allow_partial(True)',
                 'nested scopes True > None and a strict value losing a required field inside', 'missed', ''),
    'C05-r4m1': ('Dict.sym_jsonify compares value == MISSING_VALUE with the value on the left: a value with permissive sym_eq / __eq__ in a typed field is dropped from the JSON',
                 'an Object overriding sym_eq (as the pg.eq docstring shows) or a wildcard object in a schema-backed field', 'missed', ''),
    'C05-r4m2': ('KeyPath.parse reads [-1] as the string key "-1" (sign lost by a digits-only regex) while the formatter still writes int keys that way',
                 'KeyPath-typed fields or DNASpec locations with negative int keys, through JSON', 'missed', 'C10 DETECTED (roundtrip:parse-str)'),
    'C06-r4m1': ('pg.ne gets a leaf fast path that answers before eq\'s identity rule: for one NaN object eq(x, x) and ne(x, x) are both True, containers sharing it are neither equal nor ordered',
                 'the SAME NaN object on both sides (x vs x, two containers sharing the leaf)', 'missed', ''),
    'C06-r4m2': ('pg.hash gets a tuple branch hashing (type(x), items): tuple subclasses equal to plain tuples hash differently',
                 'namedtuple / tuple subclass against an equal plain tuple', 'missed', ''),
    'C07-r4m1': ('Functor._sym_clone shares the _specified_args set with the original',
                 'clone, then del clone.x', 'DETECTED (interference:Functor/arg-sets)', ''),
    'C07-r4m2': ('KeyPath.__eq__ compares the cached path strings (same change as C01-r3m1): clones skip re-rooting a child stored under the key ""',
                 'a symbolic child under the root-level key "" and a clone', 'missed', 'C01 DETECTED (stale-path:clone[override], stale-path:Dict.copy, ...)'),
    'C08-r4m1': ('List.__init__ passes sealed=sealed to the base constructor; with the early return in List.seal the final seal() is a no-op: descendants stay unsealed',
                 'pg.List([...containers...], sealed=True) and a write below a child', 'DETECTED (seal-not-deep:List@construction)', ''),
    'C08-r4m2': ('Functor.__delattr__ runs its bound-argument bookkeeping in a finally: a REFUSED deletion still forgets that the argument is bound',
                 'a sealed / scope-protected functor, del f.b, then specified_args / the call result', 'missed', ''),
    'C09-r4m1': ('KeyPath.__eq__ compares the cached path strings (same change as C01-r3m1): events below a member stored under "" carry the wrong locations',
                 'a member under the key "" and a write at or below it', 'missed', 'C01 DETECTED (stale-path:*)'),
    'C09-r4m2': ('pg.patch_on_member no longer forwards skip_notification',
                 'patch_on_member(..., skip_notification=True)', 'missed', ''),
    'C10-r4m1': ('pg.traverse gets a cycle guard whose entries are never removed: the second occurrence of an aliased sub-container is skipped',
                 'a plain nested value in which the same dict / list appears at two paths', 'missed', ''),
    'C10-r4m2': ('Dict.items() yields inferred values for Inferential members while lookups use sym_getattr: traversal reports paths that do not resolve',
                 'a pg.Ref / ValueFromParentChain stored directly in a pg.Dict and a traversal-based API', 'missed', 'C02 missed'),
    'C11-r4m1': ('CustomDecisionPoint._next_dna treats a DNA whose value is falsy as no previous DNA',
                 "an enumerable custom decision point whose values include ''", 'inconclusive (machine overloaded, per-case timeout)', ''),
    'C11-r4m2': ('Space.space_size multiplies element sizes including the -1 sentinel of infinite elements',
                 'an even number of float / non-enumerable custom elements in one Space', 'inconclusive (machine overloaded, per-case timeout)', ''),
    'C13-r4m1': ('DerivedValue.resolve treats a referent whose value is None as absent',
                 'pg.hyper.reference to a placeholder with None among its candidates', 'missed', ''),
    'C13-r4m2': ('OneOf.custom_apply assigns its value spec before validating the candidates: after a failed, handled bind a later bind to a wider spec is accepted unchecked',
                 'the same placeholder object offered to two typed fields, the first refusing it', 'missed', ''),
    'C14-r4m1': ('Permutation._on_bound copies the seed to its where filter only when the filter has none: later rebind(seed=) / clone(override) keep the old filter seed',
                 'a permutation recombinator whose seed is changed through the symbolic API, compared with a fresh one', 'missed', ''),
    'C14-r4m2': ('Top.select cluster branch uses sorted(set(keys))[-n:]: n == 0 selects everything',
                 'cluster=True and an effective n of 0', 'DETECTED (selector-count:selectors.Top)', ''),
    'C16-r4m1': ('Backend.create passes group=group or None: group ids 0 and "" become private groups',
                 'two overlapping workers sharing a falsy group id', 'missed', ''),
    'C16-r4m2': ('sample() counts deliveries in a worker-local counter against num_examples',
                 'num_examples set and trials evaluated over several iterations (re-deliveries)', 'missed', ''),
    'C17-r4m1': ('DynamicEvaluationContext.apply runs the raising finalizer before resetting the decisions',
                 'apply with more decisions than the body consumes, then a probe outside', 'missed', ''),
    'C17-r4m2': ('thread_local_arg_scope skips None values when merging inner over outer kwargs',
                 'nested str_format / repr_format scopes, the inner passing an option explicitly as None', 'DETECTED (effective-inside:thread_local_arg_scope)', ''),
    'C18-r4m1': ('Union._apply takes the first candidate the value is an instance of OR convertible to: candidate order decides',
                 'auto_typing with Union[float, int] and an int argument', 'missed', 'C04 DETECTED (compat-unsound:Union<-Int...)'),
    'C18-r4m2': ('Dict.sym_jsonify emits keys matched by one key spec sorted: **kwargs order changes through JSON',
                 '>= 2 extra kwargs bound in non-lexicographic order, JSON round trip, an order-sensitive callable', 'missed', 'C05 missed'),
    'C19-r4m1': ('run() wraps the call in pg.coding.permission(permission) instead of passing the argument: an enclosing scope makes the argument ineffective',
                 'run inside an enclosing scope S with an argument that is not a superset of S', 'DETECTED (ran-forbidden:run:...:permission-from-scope)', ''),
    'C19-r4m2': ('an os.register_at_fork hook clears the thread-local state in the child: sandboxed runs do not see the enclosing permission scope',
                 'run with sandbox True / None under an enclosing scope', 'DETECTED (ran-forbidden:maybe_sandbox_call:sandbox=None:permission-from-scope, ...)', ''),
    'C20-r4m1': ('TabControl._to_html normalises `selected` at render time: rendering modifies the value',
                 'selected negative or >= len(tabs); idempotent, so render-twice comparisons miss it', 'missed', ''),
    'C20-r4m2': ('Tooltip escapes a str content only if html.unescape(s) == s',
                 'one string with both a character reference and markup reaching a Tooltip', 'DETECTED (absent:Tooltip.content, structure-differs:Tooltip.content)', ''),
}

FOLLOWUP = {}
try:
  with open(os.path.join(ROOT, 'seeded', 'round4_followup.json')) as f:
    FOLLOWUP = json.load(f)
except FileNotFoundError:
  pass


def main():
  n = 0
  for name, (change, needs, first, cross) in sorted(T.items()):
    d = os.path.join(ROOT, 'seeded', name)
    if not os.path.isdir(d):
      print('missing', name)
      continue
    ran = f"{name.split('-')[0]} quick seed 0 at import: {first or 'not evaluated'}"
    if cross:
      ran += f'; other checks: {cross}'
    if FOLLOWUP.get(name):
      ran += f'; follow-up: {FOLLOWUP[name]}'
    meta = dict(property=name.split('-')[0], round=4, change=change,
                needs_to_manifest=needs, what_was_run=ran, author=AUTHOR,
                confirmed=CONFIRMED)
    with open(os.path.join(d, 'meta.json'), 'w') as f:
      json.dump(meta, f, indent=1, ensure_ascii=False)
      f.write('\n')
    n += 1
  print('wrote', n)


if __name__ == '__main__':
  main()
