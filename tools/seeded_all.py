#!/venv/bin/python
"""Regression of detection: runs every seeded change against the quick check that
is recorded as catching it and writes seeded/RESULTS.json.

  tools/seeded_all.py [--jobs 4] [--only C01,C07] [--seed 0]

The check used for a change is the one of its own property unless VIA names
another property (changes that are defects of another property's territory).
A change whose patch no longer applies to /repo HEAD, or whose demonstration
no longer fails with the patch (the mechanism was removed by a repair), is
reported as 'superseded', never as detected or missed.
"""
import argparse
import concurrent.futures
import json
import os
import re
import subprocess
import time

ROOT = os.path.dirname(os.path.dirname(os.path.abspath(__file__)))

# change -> property whose check is recorded as the one that catches it.
VIA = {
    'C05-r2m2': 'C17', 'C20-r2m1': 'C17', 'C11-r2m2': 'C15',
    'C10-r3m1': 'C01', 'C10-r3m2': 'C01', 'C09-r3m2': 'C17',
    'C08-r3m1': 'C08',
}


# change -> seed, where the trigger is rare and seed 0 of the current module
# does not draw it (the other seeds listed in meta.json do).
SEED = {'C12-m1': 1, 'C14-m1': 1}


def one(name, seed):
  prop = VIA.get(name, name.split('-')[0])
  seed = SEED.get(name, seed)
  t0 = time.time()
  r = subprocess.run(
      ['/venv/bin/python', os.path.join(ROOT, 'tools', 'seeded_eval.py'),
       os.path.join(ROOT, 'seeded', name), '--props', prop, '--seeds', str(seed)],
      text=True, stdout=subprocess.PIPE, stderr=subprocess.STDOUT, timeout=7200)
  out = r.stdout
  res = dict(change=name, check=prop, seed=seed, wall=round(time.time() - t0, 1))
  m = re.search(r'demo on changed tree: exit=(\d+)', out)
  if 'patch does not apply' in out:
    res['outcome'] = 'superseded (patch no longer applies)'
  elif m and m.group(1) == '0':
    res['outcome'] = 'superseded (demonstration passes with the patch: mechanism removed by a repair)'
  elif 'DETECTED' in out:
    keys = re.search(r'keys=\[(.*?)\]', out)
    res['outcome'] = 'DETECTED'
    res['keys'] = [k.strip("' ") for k in keys.group(1).split(',')][:8] if keys else []
  elif 'inconclusive' in out:
    res['outcome'] = 'inconclusive'
  else:
    res['outcome'] = 'missed'
  res['tail'] = out.strip().splitlines()[-1][:200] if out.strip() else ''
  return res


def main():
  ap = argparse.ArgumentParser()
  ap.add_argument('--jobs', type=int, default=4)
  ap.add_argument('--only')
  ap.add_argument('--seed', type=int, default=0)
  args = ap.parse_args()
  names = sorted(n for n in os.listdir(os.path.join(ROOT, 'seeded'))
                 if os.path.isfile(os.path.join(ROOT, 'seeded', n, 'patch.diff')))
  if args.only:
    only = args.only.split(',')
    names = [n for n in names if any(n.startswith(o) for o in only)]
  results = []
  with concurrent.futures.ThreadPoolExecutor(args.jobs) as ex:
    for res in ex.map(lambda n: one(n, args.seed), names):
      print(f"{res['change']:10s} via {res['check']}: {res['outcome']}  "
            f"{','.join(res.get('keys', []))[:120]}  [{res['wall']}s]", flush=True)
      results.append(res)
  path = os.path.join(ROOT, 'seeded', 'RESULTS.json')
  old = {}
  if args.only and os.path.exists(path):
    old = {r['change']: r for r in json.load(open(path))['results']}
  for r in results:
    old[r['change']] = r
  head = subprocess.run(['git', '-C', '/repo', 'log', '--format=%h', '-1'], text=True,
                        stdout=subprocess.PIPE).stdout.strip()
  summary = {}
  for r in old.values():
    k = r['outcome'].split(' ')[0]
    summary[k] = summary.get(k, 0) + 1
  json.dump(dict(repo_head=head, summary=summary,
                 results=[old[k] for k in sorted(old)]),
            open(path, 'w'), indent=1)
  print(summary)


if __name__ == '__main__':
  main()
