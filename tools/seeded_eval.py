#!/venv/bin/python
"""Runs registered checks against a seeded change (a deliberately broken copy).

  tools/seeded_eval.py seeded/<name> [--props C01,C03] [--tier quick] [--seeds 0,1]
                       [--demo-only]

The change is applied to a scratch worktree of /repo outside /repo and /verif
(removed afterwards); the checks are pointed at it with PGVERIF_REPO, which is
the same machinery the registered commands use against /repo itself.
Prints one line per (property, seed): DETECTED keys=... | missed | inconclusive.
"""
import argparse
import json
import os
import re
import shutil
import subprocess
import sys
import tempfile

ROOT = os.path.dirname(os.path.dirname(os.path.abspath(__file__)))


def sh(cmd, **kw):
  return subprocess.run(cmd, shell=isinstance(cmd, str), text=True,
                        stdout=subprocess.PIPE, stderr=subprocess.STDOUT, **kw)


def main():
  ap = argparse.ArgumentParser()
  ap.add_argument('dir')
  ap.add_argument('--props')
  ap.add_argument('--tier', default='quick')
  ap.add_argument('--seeds', default='0')
  ap.add_argument('--demo-only', action='store_true')
  ap.add_argument('--keep', action='store_true')
  args = ap.parse_args()
  d = os.path.abspath(args.dir)
  meta = {}
  if os.path.exists(os.path.join(d, 'meta.json')):
    meta = json.load(open(os.path.join(d, 'meta.json')))
  props = (args.props.split(',') if args.props
           else [meta.get('property')] if meta.get('property') else [])
  wt = tempfile.mkdtemp(prefix='pgverif-seeded-', dir='/tmp')
  os.rmdir(wt)
  r = sh(['git', '-C', '/repo', 'worktree', 'add', '-q', '--detach', wt, 'HEAD'])
  if r.returncode:
    print('worktree failed:', r.stdout)
    return 2
  rc = 0
  try:
    demo = os.path.join(d, 'demo.py')
    if os.path.exists(demo):
      r0 = sh(['/venv/bin/python', '-B', demo], env=dict(os.environ, PYTHONPATH=wt), cwd=d,
              timeout=900)
      print(f'demo on clean tree: exit={r0.returncode} {r0.stdout.strip().splitlines()[-1:] }')
    r = sh(['git', '-C', wt, 'apply', os.path.join(d, 'patch.diff')])
    if r.returncode:
      print('patch does not apply:', r.stdout)
      return 2
    if os.path.exists(demo):
      r1 = sh(['/venv/bin/python', '-B', demo], env=dict(os.environ, PYTHONPATH=wt), cwd=d,
              timeout=900)
      print(f'demo on changed tree: exit={r1.returncode} {r1.stdout.strip().splitlines()[-1:]}')
    if args.demo_only:
      return 0
    for p in props:
      for seed in args.seeds.split(','):
        env = dict(os.environ, PGVERIF_REPO=wt)
        r = sh([os.path.join(ROOT, 'check'), p, '--tier', args.tier, '--seed', seed,
                '--no-evidence'], env=env, timeout=7200)
        keys = re.findall(r'^VIOLATION property=\S+ replay=\S+ key=(\S+)', r.stdout, re.M)
        last = r.stdout.strip().splitlines()[-1] if r.stdout.strip() else ''
        if keys:
          print(f'{p} seed={seed}: DETECTED exit={r.returncode} keys={keys}')
        elif r.returncode == 2:
          print(f'{p} seed={seed}: inconclusive exit=2 :: {last[:300]}')
          inc = [l for l in r.stdout.splitlines() if l.startswith('INCONCLUSIVE')]
          print('   ', inc[:2])
        else:
          print(f'{p} seed={seed}: missed exit={r.returncode} :: {last[:200]}')
          rc = 1
  finally:
    if not args.keep:
      sh(['git', '-C', '/repo', 'worktree', 'remove', '--force', wt])
      shutil.rmtree(wt, ignore_errors=True)
    else:
      print('kept', wt)
  return rc


if __name__ == '__main__':
  sys.exit(main())
