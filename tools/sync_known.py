#!/venv/bin/python
"""Development helper: which `open:` proposals of triage/<prop>-open.txt still
fire on the current /repo (quick tier, given seeds)? Prints them grouped; adds
nothing to KNOWN_FINDINGS.txt by itself unless --write is given (then the
proposals that fired are appended as `open:` lines)."""
import os, re, subprocess, sys
ROOT = os.path.dirname(os.path.dirname(os.path.abspath(__file__)))
prop = sys.argv[1]
seeds = [s for s in sys.argv[2:] if s.isdigit()] or ['0']
write = '--write' in sys.argv
tri = os.path.join(ROOT, 'triage', f'{prop}-open.txt')
known = open(os.path.join(ROOT, 'KNOWN_FINDINGS.txt')).read()
props = {}
for l in open(tri):
  m = re.match(r'open:\s+property=(\S+)\s+key=(\S+)\s', l)
  if m: props[m.group(2)] = l.rstrip('\n')
fired, new = set(), set()
for s in seeds:
  r = subprocess.run([os.path.join(ROOT, 'check'), prop, '--tier', 'quick', '--seed', s, '--no-evidence'],
                     env=dict(os.environ, PGVERIF_KNOWN_EXTRA=tri), text=True,
                     stdout=subprocess.PIPE, stderr=subprocess.STDOUT)
  for m in re.finditer(r'^KNOWN-FINDING: property=\S+ (\S+)', r.stdout, re.M): fired.add(m.group(1))
  for m in re.finditer(r'^VIOLATION property=\S+ replay=\S+ key=(\S+)', r.stdout, re.M): new.add(m.group(1))
  print(f'seed {s}:', r.stdout.strip().splitlines()[-1][:160])
listed = set(re.findall(rf'^open:\s+property={prop}\s+key=(\S+)', known, re.M))
print('NEW (unlisted anywhere):', sorted(new))
to_add = []
for k, l in props.items():
  state = 'fired' if k in fired else 'silent'
  where = 'listed' if k in listed else 'proposal'
  print(f'  {state:7s} {where:9s} {k}')
  if k in fired and k not in listed: to_add.append(l)
stale = [k for k in listed if k not in fired]
print('listed open keys that did not fire:', stale)
if write and to_add:
  with open(os.path.join(ROOT, 'KNOWN_FINDINGS.txt'), 'a') as f:
    if not known.endswith('\n'): f.write('\n')
    f.write('\n'.join(to_add) + '\n')
  print('appended', len(to_add))
